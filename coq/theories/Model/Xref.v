(* Executable model for C02 (definitions only): cross-reference streams
   (PDFXRefStream.get_pos / get_objids, utils.nunpack), classic tables (PDFXRef.load on
   lines), the section chain and PDFDocument.getobj, object-stream members, and the two
   line readers of PSBaseParser (nextline, revreadlines) with PDFDocument.find_xref. *)
From Coq Require Import ZArith List Bool.
Import ListNotations.
Open Scope Z_scope.

(* ---------- utils.nunpack ------------------------------------------------------------------- *)
Definition be_value (s : list Z) : Z := fold_left (fun a b => 256 * a + b) s 0.
Definition nunpack (s : list Z) (default : Z) : Z := match s with [] => default | _ => be_value s end.

Definition slice (d : list Z) (a b : Z) : list Z :=      (* d[a:b] for 0 <= a *)
  firstn (Z.to_nat (b - a)) (skipn (Z.to_nat a) d).

(* ---------- cross-reference streams ------------------------------------------------------------ *)
Record xrefstm := mkXS { xranges : list (Z * Z); fl1 : Z; fl2 : Z; fl3 : Z; xdata : list Z }.
Definition entlen (x : xrefstm) : Z := fl1 x + fl2 x + fl3 x.

Inductive entry :=
| EDirect (pos gen : Z)          (* (None, pos, genno) *)
| EInStm (stm index : Z).        (* (strmid, index, 0) *)

(* the for/else of get_pos: index of the entry, or None = PDFKeyError *)
Fixpoint xs_index (ranges : list (Z * Z)) (objid : Z) (index : Z) : option Z :=
  match ranges with
  | [] => None
  | (start, nobjs) :: r =>
      if (start <=? objid) && (objid <? start + nobjs) then Some (index + (objid - start))
      else xs_index r objid (index + nobjs)
  end.

Definition xs_entry (x : xrefstm) (index : Z) : Z * Z * Z :=
  let offset := entlen x * index in
  let ent := slice (xdata x) offset (offset + entlen x) in
  (nunpack (firstn (Z.to_nat (fl1 x)) ent) 1,
   nunpack (slice ent (fl1 x) (fl1 x + fl2 x)) 0,
   nunpack (skipn (Z.to_nat (fl1 x + fl2 x)) ent) 0).

Definition xs_get_pos (x : xrefstm) (objid : Z) : option entry :=
  match xs_index (xranges x) objid 0 with
  | None => None
  | Some index =>
      let '(f1, f2, f3) := xs_entry x index in
      if f1 =? 1 then Some (EDirect f2 f3)
      else if f1 =? 2 then Some (EInStm f2 f3)
      else None
  end.

(* get_objids (with the running index across ranges) *)
Fixpoint xs_objids_range (x : xrefstm) (start : Z) (n : nat) (i : Z) (index : Z) : list Z :=
  match n with
  | O => []
  | S m =>
      if Z.of_nat (length (xdata x)) <=? entlen x * (index + i) then []      (* the data holds no further entries: break *)
      else
        let '(f1, _, _) := xs_entry x (index + i) in
        (if (f1 =? 1) || (f1 =? 2) then [start + i] else []) ++ xs_objids_range x start m (i + 1) index
  end.
Fixpoint xs_objids_go (x : xrefstm) (ranges : list (Z * Z)) (index : Z) : list Z :=
  match ranges with
  | [] => []
  | (start, nobjs) :: r =>
      xs_objids_range x start (Z.to_nat nobjs) 0 index ++ xs_objids_go x r (index + nobjs)
  end.
Definition xs_get_objids (x : xrefstm) : list Z := xs_objids_go x (xranges x) 0.

(* ---------- classic table --------------------------------------------------------------------- *)
Definition is_strip_ws (c : Z) : bool := ((9 <=? c) && (c <=? 13)) || (c =? 32).   (* bytes.strip() *)
Fixpoint lstrip (l : list Z) : list Z :=
  match l with c :: r => if is_strip_ws c then lstrip r else l | [] => [] end.
Definition strip (l : list Z) : list Z := rev (lstrip (rev (lstrip l))).

(* line.split(b" ") *)
Fixpoint split_sp (l : list Z) (cur : list Z) : list (list Z) :=
  match l with
  | [] => [rev cur]
  | c :: r => if c =? 32 then rev cur :: split_sp r [] else split_sp r (c :: cur)
  end.

Definition is_digit (c : Z) : bool := (48 <=? c) && (c <=? 57).
(* int(b"..."): only plain digit strings are modelled (None = not modelled / ValueError) *)
Definition parse_nat (s : list Z) : option Z :=
  match s with
  | [] => None
  | _ => if forallb is_digit s then Some (fold_left (fun a d => 10 * a + (d - 48)) s 0) else None
  end.

Inductive tres (A : Type) := TOk (a : A) | TNoValidXRef | TUnmodelled.
Arguments TOk {A} a. Arguments TNoValidXRef {A}. Arguments TUnmodelled {A}.

(* one entry line of a subsection: Some (Some (pos, gen)) in use, Some None skipped *)
Definition table_entry (line : list Z) : tres (option (Z * Z)) :=
  match split_sp (strip line) [] with
  | [p; g; u] =>
      match u with
      | [110] => match parse_nat p, parse_nat g with
                 | Some pi, Some gi => TOk (Some (pi, gi))
                 | _, _ => TUnmodelled                   (* safe_int of a non-digit field *)
                 end
      | _ => TOk None
      end
  | _ => TNoValidXRef
  end.

Fixpoint table_entries (lines : list (list Z)) (objid : Z) (n : nat) (acc : list (Z * (Z * Z)))
  : tres (list (Z * (Z * Z)) * list (list Z)) :=
  match n with
  | O => TOk (acc, lines)
  | S m =>
      match lines with
      | [] => TNoValidXRef                                 (* PSEOF *)
      | l :: r =>
          match table_entry l with
          | TOk (Some pg) => table_entries r (objid + 1) m (acc ++ [(objid, pg)])
          | TOk None => table_entries r (objid + 1) m acc
          | TNoValidXRef => TNoValidXRef
          | TUnmodelled => TUnmodelled
          end
      end
  end.

Definition starts_trailer (l : list Z) : bool :=
  match l with 116 :: 114 :: 97 :: 105 :: 108 :: 101 :: 114 :: _ => true | _ => false end.

(* PDFXRef.load over the lines that follow the `xref` keyword line; offsets as an
   association list in insertion order (later insertions of a key overwrite: see tbl_lookup) *)
Fixpoint table_load (fuel : nat) (lines : list (list Z)) (acc : list (Z * (Z * Z)))
  : tres (list (Z * (Z * Z))) :=
  match fuel with
  | O => TNoValidXRef
  | S f =>
      match lines with
      | [] => TNoValidXRef
      | l :: r =>
          let s := strip l in
          match s with
          | [] => table_load f r acc
          | _ =>
              if starts_trailer s then TOk acc
              else match split_sp s [] with
                   | [a; b] =>
                       match parse_nat a, parse_nat b with
                       | Some start, Some nobjs =>
                           match table_entries r start (Z.to_nat nobjs) acc with
                           | TOk (acc', rest) => table_load f rest acc'
                           | TNoValidXRef => TNoValidXRef
                           | TUnmodelled => TUnmodelled
                           end
                       | _, _ => TUnmodelled
                       end
                   | _ => TNoValidXRef
                   end
          end
      end
  end.

(* self.offsets[objid] after all insertions: the last one wins *)
Fixpoint tbl_lookup (t : list (Z * (Z * Z))) (objid : Z) (cur : option (Z * Z)) : option (Z * Z) :=
  match t with
  | [] => cur
  | (k, v) :: r => tbl_lookup r objid (if k =? objid then Some v else cur)
  end.

(* ---------- sections and getobj ------------------------------------------------------------------ *)
Inductive section :=
| STable (offsets : list (Z * (Z * Z)))
| SStream (x : xrefstm).

Definition sec_get_pos (s : section) (objid : Z) : option entry :=
  match s with
  | STable t => match tbl_lookup t objid None with Some (p, g) => Some (EDirect p g) | None => None end
  | SStream x => xs_get_pos x objid
  end.

(* what the parser finds at a file offset: `id gen obj <value>`; an object stream's value
   carries N and the parsed object list (2N header integers then the members) *)
Inductive oval := OPlain (v : Z) | OStm (n : Z) (objs : list Z).
Definition content := Z -> option (Z * oval).        (* offset -> (object number written there, value) *)

Inductive gres := GFound (v : oval) | GNotFound | GOutOfFuel.

(* PDFDocument.getobj without the cache: first section that answers AND parses *)
Fixpoint getobj (fuel : nat) (secs : list section) (c : content) (objid : Z) : gres :=
  match fuel with
  | O => GOutOfFuel
  | S f =>
      (fix try (l : list section) : gres :=
         match l with
         | [] => GNotFound
         | s :: r =>
             match sec_get_pos s objid with
             | None => try r                                         (* KeyError: continue *)
             | Some (EDirect pos _) =>
                 match c pos with
                 | Some (id1, v) => if id1 =? objid then GFound v else try r    (* PDFSyntaxError: continue *)
                 | None => try r                                     (* PSEOF / PDFSyntaxError *)
                 end
             | Some (EInStm stm index) =>
                 match getobj f secs c stm with
                 | GFound (OStm n objs) =>
                     match nth_error objs (Z.to_nat (n * 2 + index)) with
                     | Some v => if (0 <=? n * 2 + index) then GFound (OPlain v) else try r
                     | None => try r                                 (* index too big: PDFSyntaxError *)
                     end
                 | GFound (OPlain _) => try r       (* stream_value of a non-stream: not modelled further *)
                 | GNotFound => GNotFound           (* PDFObjectNotFound propagates *)
                 | GOutOfFuel => GOutOfFuel
                 end
             end
         end) secs
  end.

(* ---------- line readers ----------------------------------------------------------------------- *)
Definition is_eol (c : Z) : bool := (c =? 10) || (c =? 13).

(* nextline over the unread part of the current buffer and the buffers still to come:
   Some (line, unread part, later buffers) or None = PSEOF *)
Fixpoint span_noeol (s : list Z) : list Z * list Z :=
  match s with
  | [] => ([], [])
  | c :: r => if is_eol c then ([], s) else let (a, b) := span_noeol r in (c :: a, b)
  end.

Fixpoint nextline_go (fuel : nat) (linebuf : list Z) (eol : bool) (cur : list Z) (rest : list (list Z))
  : option (list Z * list Z * list (list Z)) :=
  match fuel with
  | O => None
  | S f =>
      match cur with
      | [] => match rest with
              | [] => None                                     (* fillbuf: PSEOF *)
              | b :: rest' => nextline_go f linebuf eol b rest' (* next buffer (may be empty only at EOF) *)
              end
      | c :: cur' =>
          if eol then
            (if c =? 10 then Some (linebuf ++ [c], cur', rest) else Some (linebuf, cur, rest))
          else
            let (a, b) := span_noeol cur in
            match b with
            | [] => nextline_go f (linebuf ++ a) false [] rest
            | e :: b' =>
                if e =? 13 then nextline_go f (linebuf ++ a ++ [e]) true b' rest
                else Some (linebuf ++ a ++ [e], b', rest)
            end
      end
  end.
Definition nextline (cur : list Z) (rest : list (list Z)) :=
  nextline_go (2 * length rest + 4) [] false cur rest.

(* specification: the line up to and including its end-of-line marker (LF, CR, CR LF) *)
Fixpoint spec_nextline (d : list Z) : option (list Z * list Z) :=
  match d with
  | [] => None
  | c :: r =>
      if c =? 10 then Some ([c], r)
      else if c =? 13 then
        match r with
        | 10 :: r' => Some ([13; 10], r')
        | [] => None                                  (* CR as the very last byte: PSEOF *)
        | _ => Some ([13], r)
        end
      else match spec_nextline r with Some (l, t) => Some (c :: l, t) | None => None end
  end.

(* revreadlines: one buffer s (the chunk of the data just before what was already read),
   pending tail buf -> (lines yielded, new pending).  n = max(s.rfind(CR), s.rfind(LF)) is found
   by scanning s from its end; the line is s[n:] + buf and the loop continues on s[:n]. *)
Fixpoint rev_chunk (fuel : nat) (s buf : list Z) : list (list Z) * list Z :=
  match fuel with
  | O => ([], buf)
  | S f =>
      match span_noeol (rev s) with
      | (_, []) => ([], s ++ buf)                         (* n == -1: buf = s + buf *)
      | (tr, c :: ar) =>                                  (* s = rev ar ++ [c] ++ rev tr, n = len ar *)
          let (ls, b') := rev_chunk f (rev ar) [] in (((c :: rev tr) ++ buf) :: ls, b')
      end
  end.

(* the outer loop: data[:pos] is `front`; chunks are taken from its end *)
Fixpoint revreadlines_go (fuel : nat) (bufsiz : nat) (front buf : list Z) : list (list Z) :=
  match fuel with
  | O => []
  | S f =>
      match front with
      | [] => []
      | _ =>
          let k := (length front - bufsiz)%nat in
          let s := skipn k front in
          let (ls, b') := rev_chunk (S (length s)) s buf in
          ls ++ revreadlines_go f bufsiz (firstn k front) b'
      end
  end.
Definition revreadlines (bufsiz : nat) (data : list Z) : list (list Z) :=
  revreadlines_go (S (length data)) bufsiz data [].

(* specification: scanning backwards, every end-of-line byte starts a line that runs to the
   next one (or to the end of the data) *)
Fixpoint rev_spec (r : list Z) (acc : list Z) : list (list Z) :=      (* r = reversed data *)
  match r with
  | [] => []
  | c :: r' => if is_eol c then (c :: acc) :: rev_spec r' [] else rev_spec r' (c :: acc)
  end.

(* PDFDocument.find_xref over the yielded lines *)
Definition startxref_kw : list Z := [115; 116; 97; 114; 116; 120; 114; 101; 102].
Fixpoint zs_eqb (a b : list Z) : bool :=
  match a, b with
  | [], [] => true
  | x :: a', y :: b' => (x =? y) && zs_eqb a' b'
  | _, _ => false
  end.
Inductive fxres := FXPos (p : Z) | FXNoValid.
Fixpoint find_xref_lines (lines : list (list Z)) (prev : list Z) : fxres :=
  match lines with
  | [] => FXNoValid
  | l :: r =>
      let s := strip l in
      if zs_eqb s startxref_kw then
        (match parse_nat prev with Some p => FXPos p | None => FXNoValid end)
      else find_xref_lines r (match s with [] => prev | _ => s end)
  end.
Definition find_xref (bufsiz : nat) (data : list Z) : fxres := find_xref_lines (revreadlines bufsiz data) [].
