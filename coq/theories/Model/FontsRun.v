(* Entry points evaluated by harness/c06.py *)
From Coq Require Import ZArith QArith List Bool.
From PdfV Require Import Base.CV Gen.FontTables Model.Fonts.
Import ListNotations.
Open Scope Z_scope.

Definition cq (q : Q) : cv := let r := Qred q in CL [CZ (Qnum r); CZ (Zpos (Qden r))].
Definition cstr (s : str) : cv := CL (map CZ s).

(* name2unicode: [] = KeyError, [text] otherwise *)
Definition run_n2u (n : option str) : cv := cvo cstr (name2unicode_obj n).

(* get_encoding(name, diff) at the given codes *)
Definition run_getenc (x : str * list ditem * list Z) : cv :=
  let '(nm, diff, codes) := x in let g := get_encoding nm diff in CL (map (fun c => cvo cstr (g c)) codes).

(* a font at the given codes: texts, then widths *)
Definition run_font (x : font * list Z) : cv :=
  let '(f, codes) := x in
  let ct := char_text f in let cw := char_width f in
  CL [CL (map (fun c => cstr (ct c)) codes); CL (map (fun c => cq (cw c)) codes)].

(* the four base tables at every code *)
Definition run_base (sel : encsel) : cv := CL (map (fun c => cvo cstr (enc_base sel c)) (map Z.of_nat (seq 0 256))).
