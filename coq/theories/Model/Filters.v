(* Executable models of the stream filters (definitions only): runlength.rldecode,
   ascii85.asciihexdecode / ascii85decode (around a model of base64.a85decode),
   lzw.LZWDecoder, utils.apply_png_predictor / apply_tiff_predictor, and the
   filter loop of PDFStream.decode.  paeth_predictor is generated from utils.py. *)
From Coq Require Import ZArith List Bool.
From PdfV Require Import Base.Num Gen.FilterGen.
Import ListNotations.
Open Scope Z_scope.

Inductive ferr :=
| EStopIteration      (* RunLength on truncated data: StopIteration / RuntimeError *)
| EBinascii           (* unhexlify: odd length or non-hex digit *)
| EValue              (* a85decode: ValueError; predictor: PDFValueError *)
| EIndex              (* IndexError *)
| EOutOfFuel.
Inductive fres := FOk (d : list Z) | FErr (e : ferr).

Definition fbind (r : fres) (f : list Z -> fres) : fres :=
  match r with FOk d => f d | FErr e => FErr e end.

(* ---------- RunLengthDecode ------------------------------------------------------------ *)
Fixpoint rldecode_go (fuel : nat) (d : list Z) : fres :=
  match fuel with
  | O => FErr EOutOfFuel
  | S f =>
      match d with
      | [] => FOk []                                   (* next(data_iter, 128) *)
      | len :: r =>
          if len =? 128 then FOk []
          else if len <? 128 then
            let n := Z.to_nat (len + 1) in
            if (length r <? n)%nat then FErr EStopIteration
            else fbind (rldecode_go f (skipn n r)) (fun t => FOk (firstn n r ++ t))
          else
            match r with
            | [] => FErr EStopIteration
            | b :: r' => fbind (rldecode_go f r') (fun t => FOk (repeat b (Z.to_nat (257 - len)) ++ t))
            end
      end
  end.
Definition rldecode (d : list Z) : fres := rldecode_go (S (length d)) d.

(* ---------- ASCIIHexDecode --------------------------------------------------------------- *)
Definition is_ws (c : Z) : bool := ((9 <=? c) && (c <=? 13)) || (c =? 32).     (* bytes \s *)
Definition is_hex (c : Z) : bool :=
  ((48 <=? c) && (c <=? 57)) || ((65 <=? c) && (c <=? 70)) || ((97 <=? c) && (c <=? 102)).
Definition hexv (c : Z) : Z :=
  if (48 <=? c) && (c <=? 57) then c - 48 else if (97 <=? c) && (c <=? 102) then c - 87 else c - 55.

Fixpoint before_gt (d : list Z) : list Z * bool :=       (* data[:idx], found? *)
  match d with
  | [] => ([], false)
  | c :: r => if c =? 62 then ([], true) else let (a, f) := before_gt r in (c :: a, f)
  end.

Fixpoint unhexlify (d : list Z) : fres :=
  match d with
  | [] => FOk []
  | [_] => FErr EBinascii
  | a :: b :: r => if is_hex a && is_hex b
                   then fbind (unhexlify r) (fun t => FOk ((16 * hexv a + hexv b) :: t))
                   else FErr EBinascii
  end.

Definition asciihexdecode (data : list Z) : fres :=
  let d := filter (fun c => negb (is_ws c)) data in
  let (a, found) := before_gt d in
  let a' := if found && Nat.odd (length a) then a ++ [48] else a in
  unhexlify a'.

(* ---------- ASCII85Decode ------------------------------------------------------------------ *)
(* start_re / end_re: ^\s*<?\s*~\s*   and   \s*~\s*>?\s*$ *)
Fixpoint drop_ws (d : list Z) : list Z :=
  match d with c :: r => if is_ws c then drop_ws r else d | [] => [] end.
Definition strip_start (d : list Z) : list Z :=
  let d1 := drop_ws d in
  let d2 := match d1 with 60 :: r => drop_ws r | _ => d1 end in       (* <? *)
  match d2 with
  | 126 :: r => drop_ws r                                              (* ~ then \s* *)
  | _ => d                                                             (* no match: unchanged *)
  end.
(* the end pattern, matched on the reversed data: \s* >? \s* ~ \s* *)
Definition strip_end (d : list Z) : list Z :=
  let r0 := rev d in
  let r1 := drop_ws r0 in
  let r2 := match r1 with 62 :: r => drop_ws r | _ => r1 end in
  match r2 with
  | 126 :: r => rev (drop_ws r)
  | _ =>
      (* the optional '>' may have to be given back: try without consuming it *)
      match r1 with
      | 126 :: r => rev (drop_ws r)
      | _ => d
      end
  end.

Definition a85_ignore (c : Z) : bool := (c =? 32) || (c =? 9) || (c =? 10) || (c =? 13) || (c =? 11).
Definition pack4 (acc : Z) : list Z :=
  [acc / 16777216; (acc / 65536) mod 256; (acc / 256) mod 256; acc mod 256].
Definition acc5 (curr : list Z) : Z := fold_left (fun a x => 85 * a + (x - 33)) curr 0.

(* the loop of base64.a85decode over b + b'uuuu': (decoded, curr) *)
Fixpoint a85_loop (d : list Z) (decoded : list Z) (curr : list Z) : option (list Z * list Z) :=
  match d with
  | [] => Some (decoded, curr)
  | x :: r =>
      if (33 <=? x) && (x <=? 117) then
        let curr' := curr ++ [x] in
        if (length curr' =? 5)%nat then
          let acc := acc5 curr' in
          if acc <? 4294967296 then a85_loop r (decoded ++ pack4 acc) [] else None   (* struct.error *)
        else a85_loop r decoded curr'
      else if x =? 122 then
        match curr with [] => a85_loop r (decoded ++ [0; 0; 0; 0]) [] | _ => None end
      else if a85_ignore x then a85_loop r decoded curr
      else None
  end.
Definition a85decode (b : list Z) : fres :=
  match a85_loop (b ++ [117; 117; 117; 117]) [] [] with
  | Some (decoded, curr) =>
      let padding := (4 - length curr)%nat in
      FOk (firstn (length decoded - padding) decoded)
  | None => FErr EValue
  end.
Definition ascii85decode (data : list Z) : fres := a85decode (strip_end (strip_start data)).

(* ---------- predictors ------------------------------------------------------------------------ *)
Definition nthd (l : list Z) (i : Z) : option Z := if i <? 0 then None else nth_error l (Z.to_nat i).

(* one scanline of apply_png_predictor: raw is built left to right *)
Fixpoint png_row (ft : Z) (bpp : Z) (enc above raw : list Z) (j : Z) : fres :=
  match enc with
  | [] => FOk raw
  | e :: r =>
      let left := if j - bpp <? 0 then Some 0 else nthd raw (j - bpp) in
      let upleft := if j - bpp <? 0 then Some 0 else nthd above (j - bpp) in
      let up := nthd above j in
      let next :=
        if ft =? 1 then option_map (fun l => (e + l) mod 256) left
        else if ft =? 3 then
          match left, up with Some l, Some u => Some ((e + (l + u) / 2) mod 256) | _, _ => None end
        else (* 4 *)
          match left, up, upleft with
          | Some l, Some u, Some ul => Some ((e + paeth_predictor ZOps l u ul) mod 256)
          | _, _, _ => None
          end in
      match next with
      | Some v => png_row ft bpp r above (raw ++ [v]) (j + 1)
      | None => FErr EIndex
      end
  end.

(* `for up_x, prior_x in zip(line_encoded, line_above)` *)
Fixpoint png_up (enc above : list Z) : list Z :=
  match enc, above with
  | e :: r, a :: r' => ((e + a) mod 256) :: png_up r r'
  | _, _ => []
  end.

Fixpoint png_lines (fuel : nat) (nbytes : nat) (bpp : Z) (data above : list Z) : fres :=
  match fuel with
  | O => FErr EOutOfFuel
  | S f =>
      match data with
      | [] => FOk []
      | ft :: rest =>
          let enc := firstn nbytes rest in
          let row :=
            if ft =? 0 then FOk enc
            else if ft =? 2 then FOk (png_up enc above)
            else if (ft =? 1) || (ft =? 3) || (ft =? 4) then png_row ft bpp enc above [] 0
            else FErr EValue in
          fbind row (fun raw => fbind (png_lines f nbytes bpp (skipn nbytes rest) raw) (fun t => FOk (raw ++ t)))
      end
  end.

Definition apply_png_predictor (colors columns bpc : Z) (data : list Z) : fres :=
  if negb ((bpc =? 8) || (bpc =? 1)) then FErr EValue
  else if (colors <? 1) || (columns <? 1) then FErr EValue     (* unsupported predictor geometry: PDFValueError *)
  else
    let nbytes := Z.to_nat ((colors * columns * bpc + 7) / 8) in
    let bpp := Z.max 1 (colors * bpc / 8) in
    png_lines (S (length data)) nbytes bpp data (repeat 0 nbytes).

Fixpoint tiff_row (bpp : Z) (enc raw : list Z) (i : Z) : fres :=
  match enc with
  | [] => FOk raw
  | e :: r =>
      if bpp <=? i then
        match nthd raw (i - bpp) with
        | Some p => tiff_row bpp r (raw ++ [(e + p) mod 256]) (i + 1)
        | None => FErr EIndex
        end
      else tiff_row bpp r (raw ++ [e]) (i + 1)
  end.

Fixpoint tiff_lines (fuel : nat) (nbytes : nat) (bpp : Z) (data : list Z) : fres :=
  match fuel with
  | O => FErr EOutOfFuel
  | S f =>
      match data with
      | [] => FOk []
      | _ =>
          if (length data <? nbytes)%nat then FErr EIndex      (* data[scanline_i + i] past the end *)
          else fbind (tiff_row bpp (firstn nbytes data) [] 0)
                     (fun raw => fbind (tiff_lines f nbytes bpp (skipn nbytes data)) (fun t => FOk (raw ++ t)))
      end
  end.

Definition apply_tiff_predictor (colors columns bpc : Z) (data : list Z) : fres :=
  if negb (bpc =? 8) then FErr EValue
  else if (colors <? 1) || (columns <? 1) then FErr EValue     (* unsupported predictor geometry: PDFValueError *)
  else
    let bpp := colors * (bpc / 8) in
    let nbytes := Z.to_nat (columns * bpp) in
    if (nbytes =? 0)%nat then FErr EValue          (* range() arg 3 must not be zero: ValueError *)
    else tiff_lines (S (length data)) nbytes bpp data.

(* ---------- LZW ------------------------------------------------------------------------------- *)
(* bit reader state: remaining bytes, current byte, bit position *)
Record bitst := mkB { brest : list Z; bbuff : Z; bpos : Z }.

Fixpoint readbits (fuel : nat) (s : bitst) (bits : Z) (v : Z) : option (Z * bitst) :=
  match fuel with
  | O => None
  | S f =>
      let r := 8 - bpos s in
      if bits <=? r then
        Some (v * 2 ^ bits + (bbuff s / 2 ^ (r - bits)) mod 2 ^ bits, mkB (brest s) (bbuff s) (bpos s + bits))
      else
        let v' := v * 2 ^ r + bbuff s mod 2 ^ r in
        match brest s with
        | [] => None                                     (* PDFEOFError *)
        | x :: rest => readbits f (mkB rest x 0) (bits - r) v'
        end
  end.

Record lzwst := mkZ { ztable : list (option (list Z)); zprev : option (list Z); znbits : Z }.
Definition lzw_init : lzwst := mkZ [] None 9.
Definition clear_table : list (option (list Z)) :=
  map (fun c => Some [Z.of_nat c]) (seq 0 256) ++ [None; None].

Inductive feedres := FeedOk (x : list Z) (s : lzwst) | FeedCorrupt | FeedIndexErr | FeedTypeErr.

Definition width_after (len : nat) (nbits : Z) : Z :=
  if (len =? 511)%nat then 10 else if (len =? 1023)%nat then 11 else if (len =? 2047)%nat then 12 else nbits.

(* LZWDecoder.feed *)
Definition lzw_feed (s : lzwst) (code : Z) : feedres :=
  if code =? 256 then FeedOk [] (mkZ clear_table (Some []) 9)
  else if code =? 257 then FeedOk [] s
  else
    let prev_empty := match zprev s with None => true | Some [] => true | Some _ => false end in
    if prev_empty then
      match nth_error (ztable s) (Z.to_nat code) with
      | Some (Some x) => FeedOk x (mkZ (ztable s) (Some x) (znbits s))
      | Some None => FeedOk [] (mkZ (ztable s) None (znbits s))       (* table[256/257] is None: unreachable (codes tested above) *)
      | None => FeedCorrupt                                          (* code beyond the table: CorruptDataError *)
      end
    else
      let prev := match zprev s with Some p => p | None => [] end in
      let len := length (ztable s) in
      if (Z.to_nat code <? len)%nat then
        match nth_error (ztable s) (Z.to_nat code) with
        | Some (Some x) =>
            let t := ztable s ++ [Some (prev ++ firstn 1 x)] in
            FeedOk x (mkZ t (Some x) (width_after (length t) (znbits s)))
        | _ => FeedTypeErr
        end
      else if (Z.to_nat code =? len)%nat then
        let x := prev ++ firstn 1 prev in
        let t := ztable s ++ [Some x] in
        FeedOk x (mkZ t (Some x) (width_after (length t) (znbits s)))
      else FeedCorrupt
  .

(* LZWDecoder.run + b"".join *)
Fixpoint lzw_run (fuel : nat) (b : bitst) (s : lzwst) : fres :=
  match fuel with
  | O => FErr EOutOfFuel
  | S f =>
      match readbits 4 b (znbits s) 0 with
      | None => FOk []
      | Some (code, b') =>
          match lzw_feed s code with
          | FeedOk x s' => fbind (lzw_run f b' s') (fun t => FOk (x ++ t))
          | FeedCorrupt => FOk []
          | FeedIndexErr => FErr EIndex
          | FeedTypeErr => FErr EValue
          end
      end
  end.
Definition lzwdecode (data : list Z) : fres :=
  lzw_run (S (length data)) (mkB data 0 8) lzw_init.

(* filter names, full or abbreviated, from the generated tables of pdftypes.py *)
Fixpoint zs_eq (a b : list Z) : bool :=
  match a, b with
  | [], [] => true
  | x :: a', y :: b' => (x =? y) && zs_eq a' b'
  | _, _ => false
  end.
Definition name_in (n : list Z) (t : list (list Z)) : bool := existsb (zs_eq n) t.

(* ---------- filter chains ---------------------------------------------------------------------- *)
Inductive fkind := KFlate | KLZW | KA85 | KAHx | KRL.
Definition kind_of_name (n : list Z) : option fkind :=
  if name_in n LITERALS_FLATE_DECODE then Some KFlate
  else if name_in n LITERALS_LZW_DECODE then Some KLZW
  else if name_in n LITERALS_ASCII85_DECODE then Some KA85
  else if name_in n LITERALS_ASCIIHEX_DECODE then Some KAHx
  else if name_in n LITERALS_RUNLENGTH_DECODE then Some KRL
  else None.
Record predparm := mkPP { ppred : Z; pcolors : Z; pcolumns : Z; pbpc : Z }.

Section Chain.
  Variable inflate : list Z -> fres.              (* zlib.decompress: an oracle, see Props/C03.v *)

  Definition decode1 (k : fkind) (d : list Z) : fres :=
    match k with
    | KFlate => inflate d | KLZW => lzwdecode d | KA85 => ascii85decode d
    | KAHx => asciihexdecode d | KRL => rldecode d
    end.

  Definition apply_pred (p : option predparm) (d : list Z) : fres :=
    match p with
    | None => FOk d
    | Some pp =>
        if ppred pp =? 1 then FOk d
        else if ppred pp =? 2 then apply_tiff_predictor (pcolors pp) (pcolumns pp) (pbpc pp) d
        else if 10 <=? ppred pp then apply_png_predictor (pcolors pp) (pcolumns pp) (pbpc pp) d
        else FErr EValue                               (* PDFNotImplementedError *)
    end.

  (* the loop of PDFStream.decode *)
  Fixpoint decode_chain (fs : list (fkind * option predparm)) (d : list Z) : fres :=
    match fs with
    | [] => FOk d
    | (k, p) :: r => fbind (decode1 k d) (fun d1 => fbind (apply_pred p d1) (decode_chain r))
    end.
End Chain.
