(* Entry points evaluated by harness/c03.py *)
From Coq Require Import ZArith List Bool.
From PdfV Require Import Base.CV Base.Num Gen.FilterGen Model.Filters.
Import ListNotations.
Open Scope Z_scope.

Definition canon_fres (r : fres) : cv :=
  match r with
  | FOk d => CL [CZ 0; CB d]
  | FErr EStopIteration => CL [CZ 1]
  | FErr EBinascii => CL [CZ 2]
  | FErr EValue => CL [CZ 3]
  | FErr EIndex => CL [CZ 4]
  | FErr EOutOfFuel => CL [CZ 9]
  end.

Definition run_rl (d : list Z) : cv := canon_fres (rldecode d).
Definition run_ahx (d : list Z) : cv := canon_fres (asciihexdecode d).
Definition run_a85 (d : list Z) : cv := canon_fres (ascii85decode d).
Definition run_lzw (d : list Z) : cv := canon_fres (lzwdecode d).
Definition run_png (x : Z * Z * Z * list Z) : cv :=
  let '(colors, columns, bpc, d) := x in canon_fres (apply_png_predictor colors columns bpc d).
Definition run_tiff (x : Z * Z * Z * list Z) : cv :=
  let '(colors, columns, bpc, d) := x in canon_fres (apply_tiff_predictor colors columns bpc d).

(* a chain without Flate stages: names + optional predictor parameters *)
Definition run_chain (x : list (list Z * option (Z * Z * Z * Z)) * list Z) : cv :=
  let '(fs, d) := x in
  let stages := map (fun np => match kind_of_name (fst np) with
                               | Some k => Some (k, option_map (fun q => let '(p, c, w, b) := q in mkPP p c w b) (snd np))
                               | None => None
                               end) fs in
  if forallb (fun s => match s with Some _ => true | None => false end) stages then
    canon_fres (decode_chain (fun _ => FErr EValue)
                  (flat_map (fun s => match s with Some x => [x] | None => [] end) stages) d)
  else CL [CZ 8].
