(* Entry points evaluated by harness/c18.py *)
From Coq Require Import ZArith List Bool.
From PdfV Require Import Base.CV Model.Images.
Import ListNotations.
Open Scope Z_scope.

(* (bits, width, height, bytes per line, data) -> file bytes, or -1 *)
Definition run_bmp (x : Z * Z * Z * Z * bytes) : cv :=
  let '(bits, w, h, bpl, d) := x in
  match bmp_file bits w h bpl d with Some f => CB f | None => CZ (-1) end.

Definition cfmt (f : fmt) : cv :=
  match f with
  | FJpeg => CL [CZ 0] | FJp2 => CL [CZ 1] | FJbig2 => CL [CZ 2]
  | FBmp bpl bits => CL [CZ 3; CZ bpl; CZ bits] | FBytesPIL => CL [CZ 4] | FRaw => CL [CZ 5]
  end.
Definition filt_of (z : Z) : filt :=
  if z =? 0 then FlDCT else if z =? 1 then FlJPX else if z =? 2 then FlJBIG2 else if z =? 3 then FlFlate else FlOther.
Definition cs_of (z : Z) : cspace := if z =? 0 then CsGray else if z =? 1 then CsRGB else CsOther.
Definition run_format (x : list Z * Z * Z * Z) : cv :=
  let '(fs, bits, w, cs) := x in cfmt (choose_format (map filt_of fs) bits w (cs_of cs)).

Definition run_unique (x : list bytes * bytes * bytes) : cv :=
  let '(existing, base, ext) := x in cvo CB (unique_name existing base ext).

Definition run_inline (s : bytes) : cv := let (d, rest) := inline_data s in CL [CB d; CB rest].
