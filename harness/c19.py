#!/usr/bin/env python3
"""C19 -- CCITT Group 4 decoding inverts a conforming encoder for every bitmap (DESIGN.md section 4, C19)."""
import io
import itertools
import os
import sys

sys.path.insert(0, os.path.dirname(os.path.abspath(__file__)))
import common
from common import CZ, CBy, CLs, gz, gbytes, gbool
from pdfwriter import Name, Ref, Stream, write_pdf

PROP = "C19"
GEN = ["gen_ccitt"]
PROPS_FILE = "theories/Props/C19.v"
COQ_TARGETS = ["theories/Props/C19.vo", "theories/Model/CCITTRun.vo"]
DRIVER = None
LEVEL = "proof"
RULE = ("bitmaps: exhaustive for all rows of width<=5 x height<=2 (quick) / width<=6 x height<=3 (thorough), random and "
        "structured (runs, stripes, checkerboards, blank, widths 1..2700 incl. >2560) otherwise; each encoded by a T.6 "
        "encoder in the harness that picks, at every step, any admissible mode (pass when b2<a1, vertical when "
        "|a1-b1|<=3, horizontal always) and any decomposition of runs into make-up + terminating codes, with or without "
        "EncodedByteAlign, EOFB and BlackIs1; decoded by ccittfaxdecode and through /CCITTFaxDecode /K -1 streams, "
        "compared with the original rows and with Model/CCITT.v evaluated in Coq (also on damaged encodings). "
        "Non-trivial: >=2 rows with >=2 colour changes.")
TRUSTED = [
    "modelled by hand: BitParser's trie walk, CCITTG4Parser's mode interpretation and line handling, output_line "
    "(Model/CCITT.v); generated from source on every run: every BitParser.add of MODE / WHITE / BLACK (Gen/CCITTTables.v). "
    "The T.4/T.6 code tables of the specification are typed into Spec/T6Tables.v and compared by vm_compute",
    "uncompressed mode is not modelled; proved about the model: the whole chain from bytes to rows (tables, prefix-freeness, "
    "trie walk, run-length codes, mode layer, glue, bit packing), with and without EncodedByteAlign, with or without EOFB; the "
    "PDFStream wrapper around the decoder is covered by differential runs",
]
ASSUMPTIONS = ["Columns >= 1; K = -1"]
MANIFEST_ENTRY = {
    "category": "proof",
    "technique": "Coq: generated code tables = T.4/T.6 tables (vm_compute), prefix-freeness and trie-walk lemma, run-length "
                 "round trip for every n by induction, bit packing; mode layer by an invariant over decoder states (curline agrees "
                 "with the row left of a0) and induction over the admissible element sequence and over rows; glue from bit strings "
                 "to elements by trie-walk lemmas, up to the scratch fields of the parser state; differential runs with a nondeterministic T.6 encoder "
                 "incl. exhaustive small bitmaps",
    "text": "Theorems: the MODE/WHITE/BLACK tables regenerated from ccitt.py equal the ITU-T T.4/T.6 tables; each table is "
            "prefix-free, so walking the trie on code++rest accepts exactly that code's value; every run length n>=0, written "
            "as any sequence of make-up codes followed by a terminating code, is read back as n in horizontal mode; output "
            "rows are packed MSB-first with BlackIs1 inversion. Mode layer: the decoder's search loops compute b1/b2 as T.6 "
            "defines them; for every bitmap (any width, any height) and every admissible sequence of pass (b2<a1), vertical "
            "(a1-b1=d, |d|<=3) and horizontal (a0a1, a1a2) elements, the decoder's reactions rebuild exactly the rows in "
            "order. Glue: the bit string of an element (mode code; for horizontal elements any make-up/terminating "
            "decomposition of both runs) drives the bit-level parser to that reaction; hence the bytes of any admissible "
            "encoding without EncodedByteAlign, zero-padded to a byte boundary, make the model of ccittfaxdecode return "
            "exactly the packed rows, for either polarity, and every bitmap has such an encoding "
            "(C19_every_bitmap_round_trips); the same followed by EOFB and arbitrary bytes; and with "
            "EncodedByteAlign: every row a whole number of bytes with up to seven arbitrary fill bits (this needs, and the "
            "development proves, that no proper prefix of a row's bit string stops the parser).",
    "note": "Trusted: Coq kernel, table translator, typed-in T.4/T.6 tables, hand model tied by differential runs, harness encoder.",
    "design_ref": "DESIGN.md section 4, C19",
}

# ITU-T T.4 tables (typed from the Recommendation; cross-checked in Coq against Spec/T6Tables.v)
WHITE_TERM = ["00110101", "000111", "0111", "1000", "1011", "1100", "1110", "1111", "10011", "10100", "00111", "01000", "001000",
              "000011", "110100", "110101", "101010", "101011", "0100111", "0001100", "0001000", "0010111", "0000011", "0000100",
              "0101000", "0101011", "0010011", "0100100", "0011000", "00000010", "00000011", "00011010", "00011011", "00010010",
              "00010011", "00010100", "00010101", "00010110", "00010111", "00101000", "00101001", "00101010", "00101011", "00101100",
              "00101101", "00000100", "00000101", "00001010", "00001011", "01010010", "01010011", "01010100", "01010101", "00100100",
              "00100101", "01011000", "01011001", "01011010", "01011011", "01001010", "01001011", "00110010", "00110011", "00110100"]
BLACK_TERM = ["0000110111", "010", "11", "10", "011", "0011", "0010", "00011", "000101", "000100", "0000100", "0000101", "0000111",
              "00000100", "00000111", "000011000", "0000010111", "0000011000", "0000001000", "00001100111", "00001101000",
              "00001101100", "00000110111", "00000101000", "00000010111", "00000011000", "000011001010", "000011001011",
              "000011001100", "000011001101", "000001101000", "000001101001", "000001101010", "000001101011", "000011010010",
              "000011010011", "000011010100", "000011010101", "000011010110", "000011010111", "000001101100", "000001101101",
              "000011011010", "000011011011", "000001010100", "000001010101", "000001010110", "000001010111", "000001100100",
              "000001100101", "000001010010", "000001010011", "000000100100", "000000110111", "000000111000", "000000100111",
              "000000101000", "000001011000", "000001011001", "000000101011", "000000101100", "000001011010", "000001100110",
              "000001100111"]
WHITE_MAKEUP = {64: "11011", 128: "10010", 192: "010111", 256: "0110111", 320: "00110110", 384: "00110111", 448: "01100100",
                512: "01100101", 576: "01101000", 640: "01100111", 704: "011001100", 768: "011001101", 832: "011010010",
                896: "011010011", 960: "011010100", 1024: "011010101", 1088: "011010110", 1152: "011010111", 1216: "011011000",
                1280: "011011001", 1344: "011011010", 1408: "011011011", 1472: "010011000", 1536: "010011001", 1600: "010011010",
                1664: "011000", 1728: "010011011"}
BLACK_MAKEUP = {64: "0000001111", 128: "000011001000", 192: "000011001001", 256: "000001011011", 320: "000000110011",
                384: "000000110100", 448: "000000110101", 512: "0000001101100", 576: "0000001101101", 640: "0000001001010",
                704: "0000001001011", 768: "0000001001100", 832: "0000001001101", 896: "0000001110010", 960: "0000001110011",
                1024: "0000001110100", 1088: "0000001110101", 1152: "0000001110110", 1216: "0000001110111", 1280: "0000001010010",
                1344: "0000001010011", 1408: "0000001010100", 1472: "0000001010101", 1536: "0000001011010", 1600: "0000001011011",
                1664: "0000001100100", 1728: "0000001100101"}
EXT_MAKEUP = {1792: "00000001000", 1856: "00000001100", 1920: "00000001101", 1984: "000000010010", 2048: "000000010011",
              2112: "000000010100", 2176: "000000010101", 2240: "000000010110", 2304: "000000010111", 2368: "000000011100",
              2432: "000000011101", 2496: "000000011110", 2560: "000000011111"}
VERT = {0: "1", 1: "011", -1: "010", 2: "000011", -2: "000010", 3: "0000011", -3: "0000010"}
EOFB = "000000000001000000000001"


def run_code(r, n, white):
    """any decomposition of the run into make-up codes (multiples of 64) and one terminating code"""
    term = WHITE_TERM if white else BLACK_TERM
    mk = dict(WHITE_MAKEUP if white else BLACK_MAKEUP)
    mk.update(EXT_MAKEUP)
    out = ""
    while n >= 64:
        cands = [k for k in mk if k <= n]
        if r is not None and r.random() < 0.3:
            k = r.choice(cands)
        else:
            k = max(cands)
        out += mk[k]
        n -= k
    return out + term[n]


def changing(line, start, colour_before):
    """first index >= start whose pixel differs from its left neighbour (left of index 0: white)"""
    w = len(line)
    i = start
    while i < w:
        left = line[i - 1] if i > 0 else 0
        if line[i] != left:
            return i
        i += 1
    return w


def encode_line(r, ref, cur, modes_used):
    """T.6 coding of `cur` (0 = white, 1 = black) against `ref`; random admissible mode at each step"""
    w = len(cur)
    bits = ""
    a0 = -1
    colour = 0           # colour of a0 (white at the start)
    while a0 < w:
        # a1: next changing element on the coding line to the right of a0 (opposite colour to a0)
        i = a0 + 1
        while i < w and cur[i] == colour:
            i += 1
        a1 = i
        # b1: first changing element on the reference line right of a0 with colour opposite to a0's
        j = a0 + 1
        while j < w:
            left = ref[j - 1] if j > 0 else 0
            if ref[j] != left and ref[j] != colour:
                break
            j += 1
        b1 = j
        k = b1 + 1
        while k < w and ref[k] == ref[b1]:
            k += 1
        b2 = k if b1 < w else w
        options = ["h"]
        if b2 < a1:
            options.append("p")
        if abs(a1 - b1) <= 3:
            options.append("v")
        if r is None:
            mode = "p" if "p" in options else "v" if "v" in options else "h"
        else:
            mode = r.choice(options) if r.random() < 0.5 else ("p" if "p" in options else "v" if "v" in options else "h")
        modes_used[mode] = modes_used.get(mode, 0) + 1
        if mode == "p":
            bits += "0001"
            a0 = b2
        elif mode == "v":
            bits += VERT[a1 - b1]
            a0 = a1
            colour = 1 - colour
        else:
            i2 = a1
            while i2 < w and cur[i2] != colour:
                i2 += 1
            a2 = i2
            start = max(a0, 0)
            bits += "001" + run_code(r, a1 - start, colour == 0) + run_code(r, a2 - a1, colour != 0)
            a0 = a2
            if a0 >= w:
                break
        if a0 >= w:
            break
    return bits


def encode_page(r, rows, width, align, eofb, modes_used):
    out = bytearray()
    bits = ""
    ref = [0] * width
    for row in rows:
        bits += encode_line(r, ref, row, modes_used)
        if align and len(bits) % 8:
            bits += "0" * (8 - len(bits) % 8)
        ref = row
    if eofb:
        bits += EOFB
    if len(bits) % 8:
        bits += "0" * (8 - len(bits) % 8)
    for i in range(0, len(bits), 8):
        out.append(int(bits[i:i + 8], 2))
    return bytes(out)


def pack(rows, blackis1):
    """the stored samples: PDF default 0 = black; BlackIs1 reverses"""
    out = bytearray()
    for row in rows:
        # row uses 1 = black; without BlackIs1 a stored 1 bit means white
        bits = [b if blackis1 else 1 - b for b in row]
        for i in range(0, len(bits), 8):
            chunk = bits[i:i + 8]
            out.append(int("".join(map(str, chunk)).ljust(8, "0"), 2))
    return bytes(out)


def gen_bitmap(r):
    k = r.random()
    if k < 0.5:
        w = r.randint(1, 40)
    elif k < 0.9:
        w = r.randint(41, 400)
    else:
        w = r.choice([1728, 2560, 2561, 2700, 1791, 1792, 64, 63, 65])
    h = r.randint(1, 5 if w < 500 else 2)
    style = r.random()
    rows = []
    for y in range(h):
        if style < 0.3:
            rows.append([r.randint(0, 1) for _ in range(w)])
        elif style < 0.6:
            row, c = [], r.randint(0, 1)
            while len(row) < w:
                row += [c] * r.choice([1, 2, 3, 7, 8, 63, 64, 65, 200, 1800, 2600])
                c = 1 - c
            rows.append(row[:w])
        elif style < 0.75:
            rows.append(list(rows[-1]) if rows and r.random() < 0.7 else [r.randint(0, 1) for _ in range(w)])
        elif style < 0.85:
            rows.append([(x + y) % 2 for x in range(w)])
        else:
            rows.append([r.choice([0, 0, 0, 1])] * w)
    return w, rows


def impl_decode(data, cols, align, blackis1):
    from pdfminer.ccitt import ccittfaxdecode, CCITTG4Parser
    try:
        return CLs([CZ(0), CBy(ccittfaxdecode(data, {"K": -1, "Columns": cols, "EncodedByteAlign": align, "BlackIs1": blackis1}))])
    except CCITTG4Parser.InvalidData:
        return CLs([CZ(1)])
    except BaseException as e:  # noqa
        return CLs([CZ(50), CBy(type(e).__name__.encode())])


def correspondence(ctx):
    cases, metas = [], []
    modes_used = {}

    def one(family, r, w, rows):
        align = (r.random() < 0.3) if r else False
        eofb = (r.random() < 0.7) if r else True
        bi1 = (r.random() < 0.4) if r else False
        enc = encode_page(r, rows, w, align, eofb, modes_used)
        got = impl_decode(enc, w, align, bi1)
        want = CLs([CZ(0), CBy(pack(rows, bi1))])
        changes = sum(1 for row in rows for i in range(1, len(row)) if row[i] != row[i - 1])
        ctx.case(family, (w, enc, align, bi1), nontrivial=len(rows) >= 2 and changes >= 2,
                 sample={"width": w, "rows": ["".join(map(str, row[:64])) for row in rows[:3]], "encoded": enc[:40].hex(),
                         "align": align, "BlackIs1": bi1})
        if got != want:
            ctx.violation(family, {"width": w, "rows": ["".join(map(str, row)) for row in rows], "encoded": enc.hex(),
                                   "align": align, "BlackIs1": bi1}, want, got,
                          "decoding a conforming Group 4 encoding does not return the original rows")
        cases.append(("(%s, %s, %s, %s)" % (gbytes(enc), gz(w), gbool(align), gbool(bi1)), got))
        metas.append((family, w, enc, align, bi1))
        return enc, align, bi1
    # exhaustive small bitmaps, deterministic encoder choices plus one random choice sequence each
    W, H = (5, 2) if ctx.tier == "quick" else (6, 3)
    idx = 0
    for w in range(1, W + 1):
        for h in range(1, H + 1):
            for bits in itertools.product([0, 1], repeat=w * h):
                rows = [list(bits[i * w:(i + 1) * w]) for i in range(h)]
                one("exhaustive", None, w, rows)
                one("exhaustive", ctx.sub("ex", idx), w, rows)
                idx += 1
    for i in range(ctx.n(250, 6000)):
        r = ctx.sub("g4", i)
        w, rows = gen_bitmap(r)
        enc, align, bi1 = one("random", r, w, rows)
        # damaged encodings: model vs implementation only
        if i % 3 == 0 and enc:
            j = r.randrange(len(enc))
            bad = enc[:j] + bytes([enc[j] ^ (1 << r.randrange(8))]) + enc[j + 1:]
            if r.random() < 0.3:
                bad = bad[:r.randint(0, len(bad))]
            got = impl_decode(bad, w, align, bi1)
            ctx.case("damaged", (w, bad, align, bi1), nontrivial=False)
            cases.append(("(%s, %s, %s, %s)" % (gbytes(bad), gz(w), gbool(align), gbool(bi1)), got))
            metas.append(("damaged", w, bad, align, bi1))
        # through a stream object
        if i % 10 == 0:
            from pdfminer.pdfparser import PDFParser
            from pdfminer.pdfdocument import PDFDocument
            objs = {1: {"Type": Name("Catalog"), "Pages": Ref(2)}, 2: {"Type": Name("Pages"), "Kids": [], "Count": 0},
                    5: Stream({"Filter": Name(r.choice(["CCITTFaxDecode", "CCF"])),
                               "DecodeParms": {"K": -1, "Columns": w, "EncodedByteAlign": align, "BlackIs1": bi1}}, enc)}
            doc = PDFDocument(PDFParser(io.BytesIO(write_pdf(objs, 1))))
            try:
                data = doc.getobj(5).get_data()
            except BaseException as e:  # noqa
                data = repr(e).encode()
            if data != pack(rows, bi1):
                ctx.violation("stream", {"width": w, "encoded": enc.hex(), "align": align, "BlackIs1": bi1},
                              pack(rows, bi1).hex(), data.hex() if isinstance(data, bytes) else str(data),
                              "PDFStream.get_data() of a /CCITTFaxDecode /K -1 stream is not the original rows")
    ctx.note("modes chosen by the encoder: %r" % modes_used)
    bad = common.coq_cases("c19", ["Model.CCITT", "Model.CCITTRun"], "run_g4", cases, shard=150, show_max=150)
    for i, shown in sorted(bad.items()):
        family, w, enc, align, bi1 = metas[i]
        if shown.strip() == "[2]":
            continue                # uncompressed mode reached on damaged data: not modelled
        ctx.disagree(family, {"width": w, "encoded": enc.hex(), "align": align, "BlackIs1": bi1}, shown, cases[i][1])


def oracle(ctx):
    pass


def replay(ctx, data):
    item = data.get("violation") or (data.get("correspondence_disagreements") or [None])[0]
    if not item:
        print("nothing to replay; no longer checks:", data.get("no_longer_checks"))
        return
    inp = item["input"]
    enc = bytes.fromhex(inp["encoded"])
    got = impl_decode(enc, inp["width"], inp["align"], inp["BlackIs1"])
    print("decoded:", got)
    if "rows" in inp:
        rows = [[int(c) for c in row] for row in inp["rows"]]
        want = CLs([CZ(0), CBy(pack(rows, inp["BlackIs1"]))])
        print("expected:", want)
        if got != want:
            ctx.violation("replay", inp, want, got, item.get("what", ""))


if __name__ == "__main__":
    sys.exit(common.main(sys.modules[__name__]))
