#!/usr/bin/env python3
"""C14 -- the tokenizer is total, makes progress and is buffer-size independent (DESIGN.md section 4, C14)."""
import io
import itertools
import os
import re
import sys

sys.path.insert(0, os.path.dirname(os.path.abspath(__file__)))
import common
from common import CZ, CBy, CLs, gbytes, gnat

PROP = "C14"
GEN = ["gen_lexer"]
PROPS_FILE = "theories/Props/C14.v"
COQ_TARGETS = ["theories/Props/C14.vo", "theories/Model/LexerRun.vo"]
DRIVER = None
LEVEL = "proof"
EXHAUSTIVE = True
RULE = ("(i) exhaustive: every byte string up to length L (quick 3, thorough 4) over an alphabet with one representative "
        "per lexical byte class, implementation run at BUFSIZ 1..k and 4096 and compared with Model/Lexer.v's chunk layer "
        "(tokenize, at BUFSIZ 1 and 16 > L) evaluated by vm_compute inside Coq; (ii) random byte strings up to 300 bytes "
        "biased to delimiters/escapes; (iii) spliced token spellings. A case is non-trivial when it yields at least one "
        "token; distinct = distinct (data, BUFSIZ).")
TRUSTED = [
    "modelled by hand: the thirteen _parse_* methods, nexttoken's loop and EOF flush (Model/Lexer.v), tied by "
    "correspondence; generated from source on every run: all regex character classes and ESC_STRING (Gen/LexClasses.v)",
    "Python int()/float() on the token text, bytes.isdigit/isalpha and the re engine are modelled (ASCII classes; "
    "numerals shorter than the interpreter's 4300-digit int limit)",
]
ASSUMPTIONS = ["bytes are integers 0..255; BUFSIZ > 0; the file object returns full reads (BytesIO)"]
MANIFEST_ENTRY = {
    "category": "proof",
    "technique": "Coq proof: chunked scanner model = byte automaton (fold_left step) for every chunking, by per-mode "
                 "simulation lemmas and a decreasing measure; classes regenerated from psparser.py; exhaustive "
                 "model/implementation differential runs over a class alphabet x BUFSIZ",
    "text": "Theorems for ALL byte strings and ALL BUFSIZ>0 about a model that mirrors each _parse_* method on buffer "
            "suffixes: the nexttoken loop terminates within 3n+3 scanner calls per buffer, never signals an error, yields "
            "the token list of a buffer-free byte automaton (hence identical for every BUFSIZ and offset-shift invariant), "
            "with non-decreasing positions inside the input. The model is tied to psparser.py by generated character classes "
            "and by exhaustive differential runs over short strings x buffer sizes.",
    "note": "Trusted: Coq kernel, regex-class translator (cross-checked against re on all 256 bytes), hand model of the "
            "_parse_* methods (correspondence only), harness. Python int()/float()/isdigit/isalpha modelled. The fixes "
            "acdb90e (octal overflow) and 8dbab63 (backslash-CR at buffer end) were needed for the theorems to hold.",
    "design_ref": "DESIGN.md section 4, C14",
}

ALPHABET = [0x20, 0x00, 0x0b, 0x0a, 0x0d, 0x25, 0x2f, 0x23, 0x28, 0x29, 0x5c, 0x3c, 0x3e, 0x5b, 0x7b,
            0x37, 0x38, 0x61, 0x6e, 0x67, 0x2b, 0x2d, 0x2e, 0x80, 0x2a]
REAL_RE = re.compile(rb"[+-]?[0-9]*\.[0-9]*")


def impl_tokens(data, bufsiz, pos=0):
    """full (pos, token) list until PSEOF, or ('EXC', class name)"""
    from pdfminer.psparser import PSBaseParser, PSEOF

    class P(PSBaseParser):
        BUFSIZ = bufsiz
    p = P(io.BytesIO(data))
    if pos:
        p.seek(pos)
    out = []
    try:
        for _ in range(4 * len(data) + 8):
            out.append(p.nexttoken())
        return ("EXC", "no PSEOF after 4n+8 tokens")
    except PSEOF:
        return out
    except BaseException as e:  # noqa
        return ("EXC", type(e).__name__)


def canon_impl(data, toks):
    from pdfminer.psparser import PSLiteral, PSKeyword
    if isinstance(toks, tuple):
        return CZ(-2)
    items = []
    for pos, t in toks:
        if isinstance(t, bool):
            c = CLs([CZ(2), CZ(1 if t else 0)])
        elif isinstance(t, int):
            c = CLs([CZ(0), CZ(t)])
        elif isinstance(t, float):
            m = REAL_RE.match(data, pos)
            sp = m.group(0) if m else b"?"
            try:
                ok = float(sp) == t
            except ValueError:
                ok = False
            c = CLs([CZ(1), CBy(sp if ok else b"float-mismatch")])
        elif isinstance(t, PSKeyword):
            c = CLs([CZ(3), CBy(t.name)])
        elif isinstance(t, PSLiteral):
            n = t.name
            c = CLs([CZ(4), CBy(n.encode("utf-8") if isinstance(n, str) else n)])
        elif isinstance(t, bytes):
            c = CLs([CZ(5), CBy(t)])
        else:
            c = CLs([CZ(9)])
        items.append(CLs([CZ(pos), c]))
    return CLs(items)


def plain(toks):
    """JSON-friendly rendering for replay files"""
    if isinstance(toks, tuple):
        return list(toks)
    out = []
    for pos, t in toks:
        name = getattr(t, "name", None)
        if name is not None:
            out.append([pos, type(t).__name__, name if isinstance(name, str) else name.hex()])
        elif isinstance(t, bytes):
            out.append([pos, "str", t.hex()])
        else:
            out.append([pos, type(t).__name__, repr(t)])
    return out


def gen_random(r):
    k = r.random()
    if k < 0.5:
        pool = bytes(ALPHABET) + b"()\\\\\r\n<>#/%0123456789abcdefABCDEF truefalse.+-[]{}"
        return bytes(r.choice(pool) for _ in range(r.randint(0, 300)))
    if k < 0.8:
        pieces = [b"(a\\\r\nb)", b"(\\777)", b"(\\1234)", b"(\\53\\5x)", b"<901FA>", b"<< /A#20B 12 -3.5 +.5 . - + >>",
                  b"/A#4", b"/A#", b"/#41#4g", b"% comment\r", b"%c\n", b"true", b"false", b"truex", b"1.2.3", b"12abc",
                  b"ab12", b"(((a))b)", b"(a\\(b)", b"(\\\r", b"\\", b"<", b">", b">>", b"<<", b"<4 1\n4>", b"<4g>",
                  b"\x00", b"/a\x00b", b"[1 2]", b"{x}", b"T*", b"'", b"\"", b"\x80\xff", b"/\xc3\xa9", b"/\xff\xfe",
                  b"(\\n\\r\\t\\b\\f\\(\\)\\\\\\q)", b"(\\\n)", b"(\\\r)", b"(\\\r\r\n)", b"00012", b"-", b"+5", b"-.",
                  b"1.", b".5", b"-0.0", b"<\n", b"(", b"(a", b"(a\\", b"(a\\1", b"/", b"%"]
        seps = [b"", b" ", b"\n", b"\r\n", b"\x00", b"\t"]
        return b"".join(r.choice(pieces) + r.choice(seps) for _ in range(r.randint(1, 12)))
    return bytes(r.randrange(256) for _ in range(r.randint(0, 120)))


def property_oracle(ctx, family, data, sizes):
    """the property text on the implementation alone; returns the reference token list"""
    ref = impl_tokens(data, 4096)
    if isinstance(ref, tuple):
        ctx.violation(family, {"data": data.hex(), "bufsiz": 4096}, "tokens then PSEOF", list(ref),
                      "tokenizer signals something other than end of input")
        return ref
    last = -1
    for pos, _ in ref:
        if not (0 <= pos < len(data)) or pos < last:
            ctx.violation(family, {"data": data.hex(), "bufsiz": 4096}, "non-decreasing positions inside the input",
                          plain(ref), "token position outside the input or decreasing")
            break
        last = pos
    for b in sizes:
        got = impl_tokens(data, b)
        if isinstance(got, tuple) or canon_impl(data, got) != canon_impl(data, ref):
            ctx.violation(family, {"data": data.hex(), "bufsiz": b}, plain(ref), plain(got),
                          "token sequence at BUFSIZ %d differs from BUFSIZ 4096" % b)
            break
    return ref


def collect(ctx):
    L = 3 if ctx.tier == "quick" else 4
    k = 4 if ctx.tier == "quick" else 6
    sizes = list(range(1, k + 1))
    for n in range(0, L + 1):
        for tup in itertools.product(ALPHABET, repeat=n):
            yield "exhaustive", bytes(tup), sizes
    for i in range(ctx.n(400, 6000)):
        r = ctx.sub("random", i)
        yield "random", gen_random(r), [1, 2, 3, r.randint(4, 40)]


def correspondence(ctx):
    cases, metas = [], []
    for family, data, sizes in collect(ctx):
        ref = property_oracle(ctx, family, data, sizes)
        want = canon_impl(data, ref)
        nontriv = not isinstance(ref, tuple) and len(ref) > 0
        for b in ([1, 16] if family == "exhaustive" else [2, sizes[-1]]):   # nat literals: keep them small
            ctx.case(family, (data, b), nontrivial=nontriv,
                     sample={"data": data.hex(), "bufsiz": b, "tokens": plain(ref)})
            cases.append(("(%s, %s)" % (gnat(b), gbytes(data)), want))
            metas.append((family, data, b, ref))
    bad = common.coq_cases("c14", ["Model.LexerRun"], "run_tokenize", cases, shard=1500)
    for i, shown in sorted(bad.items()):
        family, data, b, ref = metas[i]
        ctx.disagree(family, {"data": data.hex(), "bufsiz": b}, shown, plain(ref))


def oracle(ctx):
    # the oracle runs inside correspondence (same inputs); with a boost it explores more random strings
    if ctx.boost > 1:
        for i in range(ctx.n(2000, 20000)):
            r = ctx.sub("random-boost", i)
            data = gen_random(r)
            ctx.case("random-boost", data, nontrivial=True)
            property_oracle(ctx, "random-boost", data, [1, 2, 3, 5, 7, r.randint(8, 64)])


def replay(ctx, data):
    item = data.get("violation") or (data.get("correspondence_disagreements") or [None])[0]
    if not item:
        print("nothing to replay; no longer checks:", data.get("no_longer_checks"))
        return
    inp = item["input"]
    raw = bytes.fromhex(inp["data"])
    for b in sorted({1, 2, 3, inp.get("bufsiz", 4096), 4096}):
        print("BUFSIZ", b, plain(impl_tokens(raw, b)))
    property_oracle(ctx, "replay", raw, [1, 2, 3, 4, 5, 6, inp.get("bufsiz", 4096)])
    bad = common.coq_cases("c14r", ["Model.LexerRun"], "run_tokenize",
                           [("(%s, %s)" % (gnat(inp.get("bufsiz", 4096)), gbytes(raw)),
                             canon_impl(raw, impl_tokens(raw, inp.get("bufsiz", 4096))))])
    for i, shown in bad.items():
        print("model:", shown)
        ctx.disagree("replay", inp, shown, "see above")


if __name__ == "__main__":
    sys.exit(common.main(sys.modules[__name__]))
