"""Shared by c08.py / c09.py: glyph arrangement generator (exact binary coordinates), construction of real LTChar
objects and LTPage, observation of the analysed tree, Gallina printers."""
from fractions import Fraction

from common import gq, glist, gbool


class StubFont:
    fontname = "F"

    def is_vertical(self):
        return False

    def get_descent(self):
        return 0


def F(x):
    return Fraction(x)


def mkchar(box, text):
    """a genuine LTChar whose bounding box is exactly `box` (Fractions with power-of-two denominators)"""
    from pdfminer.layout import LTChar
    x0, y0, x1, y1 = [float(v) for v in box]
    return LTChar((x1 - x0, 0, 0, y1 - y0, x0, y0), StubFont(), 1, 1, 0, text, 1, 0, None, None)


def g_box(b):
    return "(%s, %s, %s, %s)" % tuple(gq(v) for v in b)


def g_glyphs(gs):
    return glist(["mkG %d%%nat %s [%s]" % (i, g_box(b), "; ".join(str(ord(c)) for c in t)) for i, (b, t) in enumerate(gs)])


def g_params(p):
    return "(mkLA %s %s %s %s %s %s)" % (gq(p["line_overlap"]), gq(p["char_margin"]), gq(p["line_margin"]), gq(p["word_margin"]),
                                        "None" if p["boxes_flow"] is None else "(Some %s)" % gq(p["boxes_flow"]), gbool(p["detect_vertical"]))


def la(p):
    from pdfminer.layout import LAParams
    return LAParams(line_overlap=float(p["line_overlap"]), char_margin=float(p["char_margin"]), line_margin=float(p["line_margin"]),
                    word_margin=float(p["word_margin"]), boxes_flow=None if p["boxes_flow"] is None else float(p["boxes_flow"]),
                    detect_vertical=p["detect_vertical"], all_texts=False)


EIGHTH = Fraction(1, 8)


def q8(r, lo, hi):
    return Fraction(r.randint(int(lo * 8), int(hi * 8)), 8)


def gen_params(r, extreme=False):
    p = {"line_overlap": Fraction(1, 2), "char_margin": Fraction(2), "line_margin": Fraction(1, 2), "word_margin": Fraction(1, 8),
         "boxes_flow": Fraction(1, 2), "detect_vertical": False}
    k = r.random()
    if k < 0.5:
        p["line_overlap"] = r.choice([F(0), Fraction(1, 4), Fraction(1, 2), Fraction(3, 4), F(1)])
        p["char_margin"] = r.choice([Fraction(1, 2), F(1), F(2), F(4), F(16)])
        p["line_margin"] = r.choice([F(0), Fraction(1, 4), Fraction(1, 2), F(1), F(2)])
        p["word_margin"] = r.choice([F(0), Fraction(1, 16), Fraction(1, 8), Fraction(1, 2), F(1), F(4)])
        p["boxes_flow"] = r.choice([None, F(-1), Fraction(-1, 2), F(0), Fraction(1, 2), F(1)])
        p["detect_vertical"] = r.random() < 0.4
    if extreme and r.random() < 0.3:
        key = r.choice(["line_overlap", "char_margin", "line_margin", "word_margin"])
        p[key] = r.choice([F(-1), F(0), F(1000), Fraction(1, 1024)])
    return p


def text_line(r, x, y, h, nchars, gap_word=None, charw=None, vertical=False):
    """consecutive glyphs of a line of words; returns list of (box, text)"""
    out = []
    charw = charw if charw is not None else h * r.choice([Fraction(1, 2), Fraction(5, 8), Fraction(3, 4)])
    for k in range(nchars):
        if k and r.random() < 0.2:
            adv = gap_word if gap_word is not None else charw * r.choice([Fraction(1, 2), F(1), Fraction(3, 2)])
            if vertical:
                y -= adv
            else:
                x += adv
        ch = r.choice("abcdefghijklmnopqrstuvwxyzABC012 ") if r.random() < 0.97 else r.choice(["", "\t", "ffi", "　", "中"])
        if vertical:
            out.append(((x, y - h, x + charw, y), ch))
            y -= h
        else:
            out.append(((x, y, x + charw, y + h), ch))
            x += charw
    return out


def gen_arrangement(r, kind):
    gs = []
    if kind == "paragraphs":
        y = q8(r, 300, 760)
        for _ in range(r.randint(1, 3)):
            x = q8(r, 20, 300)
            h = r.choice([F(8), F(10), F(12), F(16)])
            lead = h * r.choice([F(1), Fraction(9, 8), Fraction(5, 4), Fraction(3, 2)])
            for _ in range(r.randint(1, 4)):
                gs += text_line(r, x + (r.choice([F(0), F(0), h]) if r.random() < 0.3 else 0), y, h, r.randint(1, 8))
                y -= lead
            y -= h * r.choice([F(1), F(2), F(3)])
    elif kind == "columns":
        for c in range(r.randint(2, 3)):
            x = F(40) + c * r.choice([F(150), F(200), F(260)])
            y = q8(r, 500, 760)
            h = r.choice([F(10), F(12)])
            for _ in range(r.randint(1, 4)):
                gs += text_line(r, x, y, h, r.randint(1, 6))
                y -= h * Fraction(5, 4)
    elif kind == "scatter":
        for _ in range(r.randint(1, 12)):
            x, y = q8(r, -50, 700), q8(r, -50, 850)
            w, h = r.choice([F(0), Fraction(1, 8), F(5), F(10), F(40)]), r.choice([F(0), Fraction(1, 8), F(8), F(12), F(30)])
            gs.append(((x, y, x + w, y + h), r.choice(["x", "y", " ", "", "zz"])))
    elif kind == "vertical":
        for c in range(r.randint(1, 3)):
            x = F(500) - c * r.choice([F(14), F(20), F(60)])
            gs += text_line(r, x, q8(r, 600, 760), F(12), r.randint(1, 7), charw=F(12), vertical=True)
        if r.random() < 0.5:
            gs += text_line(r, F(50), F(100), F(10), r.randint(1, 6))
    elif kind == "grid":
        h = F(10)
        for row in range(r.randint(1, 3)):
            for col in range(r.randint(1, 4)):
                gs += text_line(r, F(50) + col * F(100) + (Fraction(1, 8) * (row * 7 + col * 3)), F(700) - row * F(30) - Fraction(1, 8) * (col * 5 + row),
                                h, r.randint(1, 3))
    elif kind == "overlap":
        base = text_line(r, F(100), F(400), F(12), r.randint(2, 6))
        gs += base
        gs += [((b[0] + Fraction(1, 2), b[1] - F(3), b[2] + Fraction(1, 2), b[3] - F(3)), t) for b, t in base[:r.randint(1, len(base))]]
    if not gs:
        gs.append(((F(10), F(10), F(15), F(20)), "q"))
    return gs


KINDS = ["paragraphs", "paragraphs", "columns", "scatter", "vertical", "grid", "overlap"]


def build_page(gs, pagebox=(0, 0, 612, 792)):
    from pdfminer.layout import LTPage
    page = LTPage(1, tuple(float(v) for v in pagebox))
    chars = []
    for b, t in gs:
        c = mkchar(b, t)
        chars.append(c)
        page.add(c)
    return page, chars


def observe(page, chars):
    """canonical structure of the analysed page: (boxes, empties, groups)"""
    from pdfminer.layout import LTTextBox, LTTextLine, LTChar, LTAnno, LTTextBoxVertical, LTTextLineVertical, LTTextGroup, LTTextGroupTBRL
    idx = {id(c): i for i, c in enumerate(chars)}

    def elems(line):
        out = []
        for e in line:
            if isinstance(e, LTChar):
                out.append(idx[id(e)])
            else:
                out.append([ord(ch) for ch in e.get_text()])
        return out

    def lin(line):
        return [1 if isinstance(line, LTTextLineVertical) else 0, list(line.bbox), elems(line)]
    boxes, empties = [], []
    boxids = {}
    for o in page:
        if isinstance(o, LTTextBox):
            boxids[id(o)] = len(boxes)
            boxes.append([1 if isinstance(o, LTTextBoxVertical) else 0, o.index, list(o.bbox), [lin(l) for l in o]])
        elif isinstance(o, LTTextLine):
            empties.append(lin(o))
    return boxes, empties


def group_tree(page, textboxes_in_creation_order):
    from pdfminer.layout import LTTextBox, LTTextGroupTBRL
    ids = {id(b): i for i, b in enumerate(textboxes_in_creation_order)}

    def t(g):
        if isinstance(g, LTTextBox):
            return ids[id(g)]
        kids = list(g)
        return [1 if isinstance(g, LTTextGroupTBRL) else 0] + [t(k) for k in kids]
    return [t(g) for g in (page.groups or [])]
