#!/usr/bin/env python3
"""C09 -- layout grouping follows the documented margins; the result is scale-invariant (DESIGN.md section 4, C09)."""
import os
import sys
from fractions import Fraction

sys.path.insert(0, os.path.dirname(os.path.abspath(__file__)))
import common
import layoutgen as lg

PROP = "C09"
GEN = ["gen_geom"]
PROPS_FILE = "theories/Props/C09.v"
COQ_TARGETS = ["theories/Props/C09.vo", "theories/Model/LayoutRun.vo"]
DRIVER = None
LEVEL = "proof"
RULE = ("pairs and runs of glyphs whose vertical overlap, horizontal distance and word gap sit exactly on, one 1/8 unit "
        "below and one above the line_overlap / char_margin / word_margin thresholds, for glyphs of equal and unequal "
        "sizes; pairs of lines whose gap, height difference and left/right/centre offsets sit on / around the "
        "line_margin threshold; single and double columns; every arrangement of C08's generator; all with exact binary "
        "coordinates, LAParams over dyadic grids, and scale factors 2^-3..2^4 applied to every coordinate and the page "
        "box. Compared with (a) the documented rules evaluated in exact rational arithmetic by the harness, (b) "
        "Model/Layout.v's first stage evaluated in Coq, (c) the unscaled result. Non-trivial: a threshold-adjacent gap.")
TRUSTED = [
    "model and trusted base as for C08 (Model/Layout.v, Model/Plane.v)",
    "the oracle's reading of docs/source/topic/converting_pdf_to_text.rst: line_overlap relative to the smaller height, "
    "char_margin to the larger width, word_margin to the larger side of the new glyph, line_margin to the line's own "
    "height with equal-size and left/right/centre alignment within the same tolerance; boxes = connected components",
]
ASSUMPTIONS = ["coordinates are binary-exact and small enough for float arithmetic to be exact"]
MANIFEST_ENTRY = {
    "category": "proof",
    "technique": "Coq proofs (alignment and space rules as iff-characterisations of the executable tests; invariance of "
                 "every comparison and of group_objects under multiplication by any k > 0, by induction over the glyph "
                 "list with == / Leibniz bookkeeping) + threshold-adjacent differential cases + scale oracle on whole pages",
    "text": "Theorems: halign/valign hold exactly under the documented strict inequalities; a glyph joins the running line "
            "exactly when aligned with its predecessor; a space is inserted exactly when the gap exceeds word_margin times "
            "the larger side of the new glyph; for every k > 0 the lines (members, order, spaces) of the scaled page are the "
            "scaled lines of the original page. The later stages are checked under powers of two by the harness.",
    "note": "Trusted: Coq kernel, hand model tied by exact differential runs; documentation reading above.",
    "design_ref": "DESIGN.md section 4, C09",
}

F = Fraction
E8 = Fraction(1, 8)


def structure(page, chars):
    boxes, empties = lg.observe(page, chars)
    return [[b[0], b[1], [[l[0], l[2]] for l in b[3]]] for b in boxes], [[l[0], l[2]] for l in empties]


def analyse(gs, p, scale=F(1), pagebox=(0, 0, 612, 792)):
    gs2 = [(tuple(v * scale for v in b), t) for b, t in gs]
    page, chars = lg.build_page(gs2, tuple(F(v) * scale for v in pagebox))
    page.analyze(lg.la(p))
    return page, chars


# ------------------------------------------------------------------ documented rules in exact arithmetic
def doc_halign(p, a, b):
    ha, hb, wa, wb = a[3] - a[1], b[3] - b[1], a[2] - a[0], b[2] - b[0]
    if not (b[1] <= a[3] and a[1] <= b[3]):
        return False
    vov = min(abs(a[1] - b[3]), abs(a[3] - b[1]))
    hd = 0 if (b[0] <= a[2] and a[0] <= b[2]) else min(abs(a[0] - b[2]), abs(a[2] - b[0]))
    return min(ha, hb) * p["line_overlap"] < vov and hd < max(wa, wb) * p["char_margin"]


def doc_lines(p, gs):
    """documented grouping of consecutive glyphs (horizontal writing): list of lists of (index | ' ')"""
    lines, cur = [], None
    for i, (b, t) in enumerate(gs):
        if cur is not None and doc_halign(p, gs[i - 1][0], b):
            if p["word_margin"] != 0 and gs[i - 1][0][2] < b[0] - p["word_margin"] * max(b[2] - b[0], b[3] - b[1]):
                cur.append(" ")
            cur.append(i)
        else:
            if cur is not None:
                lines.append(cur)
            cur = [i]
    if cur is not None:
        lines.append(cur)
    return lines


def impl_lines(page, chars):
    """all lines of the analysed page in content order: lists of (index | ' ')"""
    from pdfminer.layout import LTTextBox, LTTextLine, LTChar, LTAnno
    idx = {id(c): i for i, c in enumerate(chars)}
    out = []

    def one(l):
        r = []
        for e in l:
            if isinstance(e, LTChar):
                r.append(idx[id(e)])
            elif e.get_text() == " ":
                r.append(" ")
        out.append(r)
    for o in page:
        if isinstance(o, LTTextBox):
            for l in o:
                one(l)
        elif isinstance(o, LTTextLine):
            one(o)
    return sorted(out, key=lambda r: [x for x in r if x != " "][0])


def threshold_cases(ctx, n):
    inputs, metas = [], []
    for i in range(n):
        r = ctx.sub("thr", i)
        p = lg.gen_params(r)
        p["detect_vertical"] = False
        p["boxes_flow"] = r.choice([None, F(1, 2)])
        if p["word_margin"] < 0 or p["char_margin"] <= 0:
            p["word_margin"], p["char_margin"] = F(1, 8), F(2)
        h0, w0 = r.choice([F(8), F(10), F(16)]), r.choice([F(4), F(6), F(8)])
        h1, w1 = r.choice([h0, h0, F(12), F(6)]), r.choice([w0, w0, F(10), F(3)])
        x0, y0 = F(100), F(400)
        a = (x0, y0, x0 + w0, y0 + h0)
        kind = i % 3
        delta = r.choice([-E8, F(0), E8])
        if kind == 0:
            # vertical overlap at the line_overlap threshold: b shifted up so that overlap = thr + delta
            thr = min(h0, h1) * p["line_overlap"]
            ov = thr + delta
            by0 = a[3] - ov
            gap = max(w0, w1) * p["char_margin"] / 2
            b = (a[2] + gap, by0, a[2] + gap + w1, by0 + h1)
        elif kind == 1:
            # horizontal distance at the char_margin threshold
            thr = max(w0, w1) * p["char_margin"]
            gap = thr + delta
            b = (a[2] + gap, y0, a[2] + gap + w1, y0 + h1)
        else:
            # word gap at the word_margin threshold (well inside char_margin)
            thr = p["word_margin"] * max(w1, h1)
            gap = thr + delta
            b = (a[2] + gap, y0, a[2] + gap + w1, y0 + h1)
        gs = [(a, "a"), (b, "b")]
        if r.random() < 0.5:
            c0 = b[2] + r.choice([F(0), F(1), w1])
            gs.append(((c0, b[1], c0 + w1, b[3]), "c"))
        fam = ["thr-overlap", "thr-charmargin", "thr-wordmargin"][kind]
        inp = {"glyphs": [[str(v) for v in bb] + [t] for bb, t in gs], "params": {k: (None if v is None else str(v)) for k, v in p.items()},
               "delta": str(delta)}
        try:
            page, chars = analyse(gs, p)
        except BaseException as e:  # noqa
            ctx.violation(fam, inp, "a layout", type(e).__name__, "layout analysis raised")
            continue
        got = impl_lines(page, chars)
        want = doc_lines(p, gs)
        ctx.case(fam, repr(inp), nontrivial=True, sample={"delta": str(delta), "lines": repr(got)})
        if got != want:
            ctx.violation(fam, inp, want, got, "glyph grouping / word spacing differs from the documented margins")
        inputs.append("(%s, %s)" % (lg.g_params(p), lg.g_glyphs(gs)))
        metas.append((fam, inp, got))
    res = common.coq_eval("c09t", ["Model.Layout", "Model.LayoutRun"], "run_lines", inputs, shard=max(8, len(inputs) // 32))
    for (fam, inp, got), val in zip(metas, res):
        ml = [[(" " if e == [32] else e) for e in l[2] if e != [10]] for l in val]
        ml = sorted(ml, key=lambda rr: [x for x in rr if x != " "][0])
        if ml != got:
            ctx.disagree(fam, inp, ml, got)


# ------------------------------------------------------------------ lines -> boxes
def line_of(x, y, h, n, w):
    return [((x + k * w, y, x + (k + 1) * w, y + h), "x") for k in range(n)]


def doc_neighbor(p, l1, l2):
    """is l2 a neighbour of l1 (boxes as 4-tuples)"""
    d = p["line_margin"] * (l1[3] - l1[1])
    q = (l1[0], l1[1] - d, l1[2], l1[3] + d)
    if l2[2] <= q[0] or q[2] <= l2[0] or l2[3] <= q[1] or q[3] <= l2[1]:
        return False
    if abs((l2[3] - l2[1]) - (l1[3] - l1[1])) > d:
        return False
    return abs(l2[0] - l1[0]) <= d or abs(l2[2] - l1[2]) <= d or abs((l2[0] + l2[2]) / 2 - (l1[0] + l1[2]) / 2) <= d


def lines_cases(ctx, n, vertical=False):
    """lines (or, transposed, the columns of vertical writing) placed at the thresholds of the neighbour relation"""
    from pdfminer.layout import LTTextBox, LTChar
    import math
    for i in range(n):
        r = ctx.sub("vlines" if vertical else "lines", i)
        p = lg.gen_params(r)
        p["detect_vertical"] = vertical
        if p["line_margin"] < 0:
            p["line_margin"] = F(1, 2)
        p["char_margin"], p["line_overlap"], p["word_margin"] = F(2), F(1, 2), F(1, 8)
        h = r.choice([F(8), F(10), F(16)])
        w = h / 2
        lines = [(F(100), F(500), h, r.randint(2, 6))]
        kind = i % 5
        delta = r.choice([-E8, F(0), E8])
        d = p["line_margin"] * h
        if kind == 0:        # vertical gap at threshold (gap between the lower line's top and the upper line's bottom)
            lines.append((F(100), F(500) - (d + delta) - h, h, r.randint(2, 6)))
        elif kind == 1:      # height difference at threshold
            h2 = h + d + delta
            if h2 <= 0:
                h2 = h
            lines.append((F(100), F(500) - h2 - E8, h2, r.randint(2, 4)))
        elif kind == 2:      # left offset at threshold, other edges far away
            n1 = lines[0][3]
            lines.append((F(100) + d + delta, F(500) - h - E8, h, n1 + 5))
        elif kind == 4:      # centre offset at threshold, both edges far away (the second line is longer on both sides)
            n1 = lines[0][3]
            m = int(math.ceil((2 * d + 1) / w)) + 1
            lines.append((F(100) - m * w + d + delta, F(500) - h - E8, h, n1 + 2 * m))
        else:                # three lines, chain
            y2 = F(500) - h - r.choice([E8, d, d + E8, 2 * d + 1])
            lines.append((F(100), y2, h, r.randint(2, 6)))
            lines.append((F(100) + r.choice([F(0), d + E8]), y2 - h - r.choice([E8, d, d + E8, 2 * d + 2]), h, r.randint(2, 6)))
        gs, spans = [], []
        for (x, y, hh, nn) in lines:
            ww = hh / 2
            spans.append((len(gs), len(gs) + nn))
            gs += line_of(x, y, hh, nn, ww)
        boxes_l = [(gs[a][0][0], gs[a][0][1], gs[b - 1][0][2], gs[b - 1][0][3]) for a, b in spans]
        if vertical:
            # vertical writing is the exact transpose: glyphs stacked in columns, columns side by side; the documented
            # relation (distance and size relative to the column WIDTH, lower / upper / centre alignment) is the
            # horizontal one with x and y exchanged, so the oracle keeps working on the untransposed boxes
            gs = [((b[1], b[0], b[3], b[2]), t) for b, t in gs]
        fam = ("vlines-%d" if vertical else "lines-%d") % kind
        inp = {"lines": [[str(v) for v in l] for l in lines], "params": {k: (None if v is None else str(v)) for k, v in p.items()}, "delta": str(delta)}
        try:
            page, chars = analyse(gs, p)
        except BaseException as e:  # noqa
            ctx.violation(fam, inp, "a layout", type(e).__name__, "layout analysis raised")
            continue
        idx = {id(c): k for k, c in enumerate(chars)}
        got = []
        for o in page:
            if isinstance(o, LTTextBox):
                members = set()
                for l in o:
                    first = [idx[id(e)] for e in l if isinstance(e, LTChar)][0]
                    members.add([k for k, (a, b) in enumerate(spans) if a <= first < b][0])
                got.append(members)
        # documented: connected components of the neighbour relation
        comp = list(range(len(lines)))
        for a in range(len(lines)):
            for b in range(len(lines)):
                if a != b and doc_neighbor(p, boxes_l[a], boxes_l[b]):
                    ca, cb = comp[a], comp[b]
                    comp = [ca if c == cb else c for c in comp]
        want = {}
        for k, c in enumerate(comp):
            want.setdefault(c, set()).add(k)
        ctx.case(fam, repr(inp), nontrivial=True, sample={"delta": str(delta), "boxes": [sorted(s) for s in got]})
        if sorted(map(sorted, got)) != sorted(map(sorted, want.values())):
            ctx.violation(fam, inp, sorted(map(sorted, want.values())), sorted(map(sorted, got)),
                          "lines grouped into boxes differently from the documented neighbour relation")


def columns_cases(ctx, n):
    """a single column comes out top to bottom; a left column before a right one"""
    from pdfminer.layout import LTTextBox
    for i in range(n):
        r = ctx.sub("cols", i)
        p = {"line_overlap": F(1, 2), "char_margin": F(2), "line_margin": F(1, 2), "word_margin": F(1, 8),
             "boxes_flow": (r.choice([F(1, 2), F(1, 2), F(0), F(1), None]) if i % 2 == 0 else F(1, 2)), "detect_vertical": False}
        h = F(10)
        two = i % 2 == 1
        gs, paras = [], []
        shape = [r.randint(1, 3) for _ in range(r.randint(2, 4))]      # lines per paragraph: the same in both columns,
        for c in range(2 if two else 1):                                # so that the columns have the same extent
            x = F(50) + c * F(300)
            y = F(700)
            for para, nl in enumerate(shape):
                start = len(gs)
                for _ in range(nl):
                    gs += line_of(x, y, h, r.randint(3, 8), h / 2)
                    y -= h * F(9, 8)
                paras.append((c, para, start))
                y -= h * 3
        if r.random() < 0.5:         # content order differs from reading order
            order = list(range(len(paras)))
            r.shuffle(order)
        inp = {"paras": paras, "params": {k: (None if v is None else str(v)) for k, v in p.items()}}
        page, chars = analyse(gs, p)
        idx = {id(c): k for k, c in enumerate(chars)}
        firsts = []
        for o in page:
            if isinstance(o, LTTextBox):
                f = min(idx[id(e)] for l in o for e in l if id(e) in idx)
                firsts.append(max(pp for pp in paras if pp[2] <= f))
        fam = "columns-2" if two else "columns-1"
        ctx.case(fam, repr(inp), nontrivial=True, sample={"order": [(a, b) for a, b, _ in firsts]})
        want = sorted(paras) if p["boxes_flow"] is not None else sorted(paras, key=lambda t: (t[1], t[0]))
        if p["boxes_flow"] is None and two:
            continue                 # without the hierarchy the order is by position only: not claimed
        if [t[:2] for t in firsts] != [t[:2] for t in want]:
            ctx.violation(fam, inp, [t[:2] for t in want], [t[:2] for t in firsts], "boxes are not in column / top-to-bottom order")


def scale_cases(ctx, n):
    for i in range(n):
        r = ctx.sub("scale", i)
        kind = lg.KINDS[i % len(lg.KINDS)]
        gs = lg.gen_arrangement(r, kind)[:40]
        p = lg.gen_params(r)
        fam = "scale-" + kind
        inp = {"glyphs": [[str(v) for v in b] + [t] for b, t in gs], "params": {k: (None if v is None else str(v)) for k, v in p.items()}}
        try:
            page, chars = analyse(gs, p)
            base = structure(page, chars)
        except BaseException as e:  # noqa
            ctx.violation(fam, inp, "a layout", type(e).__name__, "layout analysis raised")
            continue
        for ke in r.sample([-3, -2, -1, 1, 2, 3, 4], 3):
            k = F(2) ** ke
            page2, chars2 = analyse(gs, p, scale=k)
            got = structure(page2, chars2)
            ctx.case(fam, (repr(inp), ke), nontrivial=len(base[0]) > 1, sample={"k": str(k), "boxes": len(base[0])})
            if got != base:
                ctx.violation(fam, dict(inp, scale=str(k)), repr(base)[:500], repr(got)[:500],
                              "layout result changes when every coordinate is multiplied by a power of two")
                break


def correspondence(ctx):
    threshold_cases(ctx, ctx.n(400, 8000))
    lines_cases(ctx, ctx.n(300, 6000))
    lines_cases(ctx, ctx.n(200, 4000), vertical=True)
    columns_cases(ctx, ctx.n(100, 2000))
    scale_cases(ctx, ctx.n(200, 4000))


def oracle(ctx):
    pass


def known_match(finding, item):
    return item.get("kind") == "property" and item.get("family", "").startswith(finding.get("family", "~"))


def confirm_known(ctx, finding):
    return False


def replay(ctx, data):
    item = data.get("violation") or (data.get("correspondence_disagreements") or [None])[0]
    print("replay: re-run ./check C09; stored case:", str(item)[:1500])


if __name__ == "__main__":
    sys.exit(common.main(sys.modules[__name__]))
