#!/usr/bin/env python3
"""C16 -- painted paths become shapes with the right points, class and graphics state (DESIGN.md section 4, C16)."""
import os
import sys
from fractions import Fraction as Fr

sys.path.insert(0, os.path.dirname(os.path.abspath(__file__)))
import common
import interpgen as ig
from interpgen import Nm

PROP = "C16"
GEN = ["gen_geom", "gen_textops"]
PROPS_FILE = "theories/Props/C16.v"
COQ_TARGETS = ["theories/Props/C16.vo", "theories/Model/InterpRun.vo"]
DRIVER = None
LEVEL = "proof"
RULE = ("random programs over m l c v y h re, S s f f* B B* b b* n, w d, g G rg RG k K cs CS sc scn SC SCN, q Q cm with dyadic "
        "operands, 1-5 subpaths per path, current matrices from {identity, scale, quarter turns, shear, generic}, nested "
        "q/Q, occasionally ill-typed operands; LTLine/LTRect/LTCurve attributes (pts, stroke, fill, evenodd, linewidth, "
        "dashing_style, colours, original_path) collected with PDFPageAggregator(laparams=None) vs Model/Interp.v + "
        "Model/PathPaint.v evaluated in Coq, and vs an ISO-style reference (subpath splitting, transformed end points, "
        "class, state with q/Q) in the harness. Non-trivial: >=2 shapes under a non-identity matrix.")
TRUSTED = [
    "modelled by hand: the path/paint/colour do_* methods (Model/Interp.v) and PDFLayoutAnalyzer.paint_path with the "
    "LTLine/LTRect/LTCurve constructors (Model/PathPaint.v), tied by differential runs; matrix helpers generated",
    "float equality tests inside paint_path (closed loop, axis alignment) are modelled by exact rational equality",
]
ASSUMPTIONS = ["colour None is read as 'the initial colour' (no colour operator executed yet)"]
MANIFEST_ENTRY = {
    "category": "proof",
    "technique": "Coq proofs by case analysis / induction on paths about a model of the path operators and paint_path; "
                 "differential runs on generated path programs",
    "text": "Theorems: every painting operator and n empties the current path (no residue); a path of k subpaths each with "
            "at least one segment yields exactly k shapes, in order; the points of a shape are the transformed segment end "
            "points (h = the subpath's start) up to the documented redundant-l normalisation; a subpath is a line exactly "
            "when it is m l [h], a rectangle exactly when it is a closed axis-aligned quadrilateral, else a curve; the shape "
            "carries the paint flags and the graphics state current at the painting operator; q..Q restores the state "
            "(C05_qQ_restores). Known finding: cs/CS do not reset the colour to its initial value.",
    "note": "Trusted: Coq kernel, hand models tied by differential runs, harness generator. A lone 'm' painted on its own "
            "yields a one-point curve (reported, the property does not settle it).",
    "design_ref": "DESIGN.md section 4, C16",
}

PAINT = ["S", "s", "f", "f*", "B", "B*", "b", "b*", "n"]


def gen_path_prog(r, illtyped):
    prog = []

    def op(name, *args):
        for a in args:
            prog.append(("v", a))
        prog.append(("op", name))

    def pt():
        return (r.choice([0, 10, 20, 30, Fr(5, 2), -10, 100]), r.choice([0, 10, 20, 30, Fr(15, 4), -10, 50]))
    if not illtyped and r.random() < 0.3:
        # save/restore focus: every graphics-state parameter set, saved, changed, painted, restored, painted again
        def setall():
            if r.random() < 0.8:
                op("w", r.choice([0, 1, 2, Fr(1, 2), 10]))
            if r.random() < 0.8:
                op("d", r.choice([[], [3], [2, 1], [Fr(1, 2), 4]]), r.choice([0, 1, 2]))
            if r.random() < 0.8:
                op(r.choice(["g", "G"]), r.choice([0, 1, Fr(1, 2)]))
            if r.random() < 0.6:
                op(r.choice(["rg", "RG"]), *[r.choice([0, 1, Fr(1, 4)]) for _ in range(3)])

        def paint():
            op("m", *pt())
            op("l", *pt())
            if r.random() < 0.5:
                op("l", *pt())
            op(r.choice(["S", "B", "s", "f"]))
        setall()
        for _ in range(r.randint(1, 3)):
            op("q")
            setall()
            paint()
            if r.random() < 0.3:
                op("q")
                setall()
                paint()
                op("Q")
            op("Q")
            paint()
        return prog
    for _ in range(r.randint(3, 14)):
        k = r.random()
        if illtyped and r.random() < 0.1:
            name = r.choice(["m", "l", "c", "re", "w", "cm", "g", "RG", "k", "SC", "scn", "v", "y"])
            na = ig.OPS[name][1]
            args = [ig.num(r, True) for _ in range(na)]
            if args and r.random() < 0.6:
                args[r.randrange(len(args))] = r.choice([Nm("X"), [1], b"s", True])
            elif args:
                args = args[:r.randint(0, len(args) - 1)]
            op(name, *args)
            continue
        if k < 0.45:
            # a path: 1-5 subpaths, then a painting operator
            for _ in range(r.randint(1, 5)):
                kind = r.random()
                if kind < 0.2:
                    x, y = pt()
                    op("re", x, y, r.choice([10, 20, Fr(5, 2), -10, 0]), r.choice([10, 5, -20, 0]))
                elif kind < 0.4:
                    # axis-aligned quadrilateral written with m l l l (l) h
                    x, y = pt()
                    w, h = r.choice([10, 20, -5]), r.choice([10, 30, -5])
                    op("m", x, y)
                    op("l", x + w, y)
                    op("l", x + w, y + h)
                    op("l", x, y + h)
                    if r.random() < 0.5:
                        op("l", x, y)
                    if r.random() < 0.7:
                        op("h")
                else:
                    if r.random() < 0.93:
                        op("m", *pt())
                    for _ in range(r.randint(0, 4)):
                        s = r.random()
                        if s < 0.6:
                            op("l", *pt())
                        elif s < 0.75:
                            op("c", *pt(), *pt(), *pt())
                        elif s < 0.85:
                            op("v", *pt(), *pt())
                        elif s < 0.95:
                            op("y", *pt(), *pt())
                        else:
                            op("h")
                    if r.random() < 0.3:
                        op("h")
            op(r.choice(PAINT))
        elif k < 0.55:
            op("w", r.choice([0, 1, 2, Fr(1, 2), 10]))
        elif k < 0.6:
            op("d", r.choice([[], [3], [2, 1], [Fr(1, 2), 4]]), r.choice([0, 1, 2]))
        elif k < 0.8:
            c = r.random()
            if c < 0.2:
                op(r.choice(["g", "G"]), r.choice([0, 1, Fr(1, 2)]))
            elif c < 0.45:
                op(r.choice(["rg", "RG"]), *[r.choice([0, 1, Fr(1, 4)]) for _ in range(3)])
            elif c < 0.6:
                op(r.choice(["k", "K"]), *[r.choice([0, 1, Fr(1, 2)]) for _ in range(4)])
            elif c < 0.8:
                op(r.choice(["cs", "CS"]), Nm(r.choice(["DeviceRGB", "DeviceGray", "DeviceCMYK", "Nope"])))
            else:
                op(r.choice(["sc", "scn", "SC", "SCN"]), *[r.choice([0, 1, Fr(3, 4)]) for _ in range(r.choice([1, 3, 4]))])
        elif k < 0.87:
            op("q")
        elif k < 0.93:
            op("Q")
        else:
            m = r.choice([(1, 0, 0, 1, 0, 0), (2, 0, 0, 2, 0, 0), (0, 1, -1, 0, 0, 0), (-1, 0, 0, -1, 100, 100),
                          (1, Fr(1, 2), 0, 1, 0, 0), (Fr(3, 2), 1, -1, 2, 7, -3), (1, 0, 0, -1, 0, 200)])
            op("cm", *m)
    return prog


FLAGS = {}


def reference(prog, iso=True):
    """ISO-style reference for well-typed programs: list of (kind, pts, stroke, fill, evenodd, linewidth, dash,
    scolor, ncolor); colours follow ISO 8.6 incl. the reset by cs/CS (initial colour reported as [])"""
    I = (Fr(1), Fr(0), Fr(0), Fr(1), Fr(0), Fr(0))

    def mul(a, b):
        return (a[0] * b[0] + a[1] * b[2], a[0] * b[1] + a[1] * b[3], a[2] * b[0] + a[3] * b[2], a[2] * b[1] + a[3] * b[3],
                a[4] * b[0] + a[5] * b[2] + b[4], a[4] * b[1] + a[5] * b[3] + b[5])

    def ap(m, p):
        return (m[0] * p[0] + m[2] * p[1] + m[4], m[1] * p[0] + m[3] * p[1] + m[5])
    st = {"ctm": I, "lw": Fr(0), "dash": None, "sc": None, "nc": None, "scs": 1, "ncs": 1}
    stack, args, path, out = [], [], [], []
    ncomp = {"DeviceGray": 1, "DeviceRGB": 3, "DeviceCMYK": 4}
    for it in prog:
        if it[0] == "v":
            args.append(it[1])
            continue
        name = it[1]
        na = ig.OPS[name][1]
        if name in ("sc", "scn", "SC", "SCN"):
            na = st["scs"] if name in ("SC", "SCN") else st["ncs"]
        # an operator takes the operands that are there, at most na of them (with fewer than na on the stack the slice
        # start must not go negative: args[-1:] would take one operand and leave the others for the next operator --
        # a false alarm of this oracle in the thorough tier on under-supplied SC/sc operators)
        lo = max(0, len(args) - na)
        a = args[lo:] if na else []
        del args[lo:]
        f = [Fr(x) for x in a] if all(isinstance(x, (int, Fr)) for x in a) else None
        if name == "q":
            stack.append(dict(st))
        elif name == "Q":
            if stack:
                keep = (st["scs"], st["ncs"])
                st.update(stack.pop())
                st["scs"], st["ncs"] = keep          # pdfminer keeps the colour SPACE outside the saved state
        elif name == "cm":
            st["ctm"] = mul(tuple(f), st["ctm"])
        elif name == "w":
            st["lw"] = f[0]
        elif name == "d":
            st["dash"] = (a[0], a[1])
        elif name in ("m", "l"):
            path.append((name, f))
        elif name in ("c", "v", "y"):
            path.append((name, f))
        elif name == "h":
            if not (path and path[-1][0] == "h"):      # ISO 8.5.2.1: closing an already closed subpath adds nothing
                path.append(("h", []))
        elif name == "re":
            x, y, w, h = f
            path += [("m", [x, y]), ("l", [x + w, y]), ("l", [x + w, y + h]), ("l", [x, y + h]), ("h", [])]
        elif name in PAINT:
            if name in ("s", "b", "b*"):
                if not (path and path[-1][0] == "h"):  # ISO: closing an already closed subpath adds nothing
                    path.append(("h", []))
            if name != "n":
                stroke = name in ("S", "s", "B", "B*", "b", "b*")
                fill = name in ("f", "f*", "B", "B*", "b", "b*")
                eo = name in ("f*", "B*", "b*")
                # subpaths: maximal runs starting at m, with at least one more operator
                subs, cur = [], None
                for seg in path:
                    if seg[0] == "m":
                        if cur and len(cur) > 1:
                            subs.append(cur)
                        cur = [seg]
                    elif cur is not None:
                        cur.append(seg)
                if cur and (len(cur) > 1 or len([s for s in path if s[0] == "m"]) == 1):
                    subs.append(cur)
                if path and path[0][0] != "m":
                    subs = []
                for sub in subs:
                    start = tuple(sub[0][1])
                    pts = [ap(st["ctm"], start if s[0] == "h" else tuple(s[1][-2:])) for s in sub]
                    shape = "".join(s[0] for s in sub)
                    if len(shape) > 3 and shape.endswith("lh") and pts[-2] == pts[0]:
                        shape = shape[:-2] + "h"
                        pts.pop()
                    kind = 2
                    if shape in ("ml", "mlh"):
                        kind = 0
                        pts = pts[:2]
                    elif shape in ("mlllh", "mllll") and pts[0] == pts[4]:
                        (x0, y0), (x1, y1), (x2, y2), (x3, y3) = pts[:4]
                        if (x0 == x1 and y1 == y2 and x2 == x3 and y3 == y0) or (y0 == y1 and x1 == x2 and y2 == y3 and x3 == x0):
                            kind = 1
                            pts = [(x0, y0), (x2, y0), (x2, y2), (x0, y2)]
                    out.append((kind, pts, stroke, fill, eo, st["lw"], st["dash"], st["sc"], st["nc"]))
            path = []
        elif name in ("g", "G"):
            st["nc" if name == "g" else "sc"] = (f[0],)
            st["ncs" if name == "g" else "scs"] = 1
        elif name in ("rg", "RG"):
            st["nc" if name == "rg" else "sc"] = tuple(f)
            st["ncs" if name == "rg" else "scs"] = 3
        elif name in ("k", "K"):
            st["nc" if name == "k" else "sc"] = tuple(f)
            st["ncs" if name == "k" else "scs"] = 4
        elif name in ("cs", "CS"):
            n = ncomp.get(a[0].s)
            if n is not None:
                st["ncs" if name == "cs" else "scs"] = n
                if iso:
                    FLAGS["csreset"] = True
                    st["nc" if name == "cs" else "sc"] = None      # ISO 8.6.8: colour reset to its initial value
        elif name in ("sc", "scn", "SC", "SCN"):
            if f is not None and len(f) == na:
                st["sc" if name in ("SC", "SCN") else "nc"] = tuple(f)
    return out


def correspondence(ctx):
    results = []
    for i in range(ctx.n(200, 8000)):
        r = ctx.sub("paths", i)
        illtyped = (i % 4 == 3)
        prog = gen_path_prog(r, illtyped)
        res = ig.Resources()
        family = "paths-illtyped" if illtyped else "paths"
        names = ig.Names()
        pdf, _ = ig.build_pdf(res, prog, r)
        try:
            impl = ig.impl_events(pdf, names)
        except BaseException as e:  # noqa
            ctx.violation(family, {"pdf": pdf.hex(), "program": ig.ser_prog(prog).decode("latin-1")}, "shapes or a library error",
                          repr(e)[:300], "content stream interpretation raised %s" % type(e).__name__)
            continue
        shapes = [e for e in impl if e[0] == 1]
        ctx.case(family, pdf, nontrivial=len(shapes) >= 2,
                 sample={"program": ig.ser_prog(prog).decode("latin-1")[:300], "shapes": len(shapes)})
        results.append((family, pdf, prog, impl, "(ident, %s, %s)" % (ig.g_resources(res, names), ig.g_prog(prog, names))))
        if not illtyped:
            FLAGS.clear()
            try:
                want = reference(prog, iso=True)
                want_known = reference(prog, iso=False)      # ISO except for the two recorded deviations
            except Exception:
                want = None
            if want is not None:
                def ndash(dv):
                    """the dash pattern as ([lengths], phase), None when never set"""
                    if not dv:
                        return None
                    arr, ph = dv
                    if isinstance(arr, list) and len(arr) == 2 and arr[0] == 3:        # observed: [3, [[0, x], ...]]
                        arr, ph = [x[1] for x in arr[1]], ph[1]
                    return ([float(x) for x in arr], float(ph))

                def norm(ws):
                    return [(w[0], [(float(x), float(y)) for x, y in w[1]], w[2], w[3], w[4], float(w[5]), ndash(w[6]),
                             [float(x) for x in (w[7] or ())], [float(x) for x in (w[8] or ())]) for w in ws]
                obs = [(e[1], [tuple(p) for p in e[2]], bool(e[3]), bool(e[4]), bool(e[5]), e[6], ndash(e[7]), e[8], e[9]) for e in shapes]
                exp, expk = norm(want), norm(want_known)
                if obs != exp:
                    if obs == expk:
                        # exactly the recorded deviations and nothing else
                        for fm in ["paths-csreset"]:
                            ctx.violation(fm, {"pdf": pdf.hex(), "program": ig.ser_prog(prog).decode("latin-1")},
                                          "ISO shapes", "recorded deviation only", "known deviation")
                    else:
                        k = next((j for j in range(min(len(obs), len(expk))) if obs[j] != expk[j]), min(len(obs), len(expk)))
                        ctx.violation(family, {"pdf": pdf.hex(), "program": ig.ser_prog(prog).decode("latin-1"), "shape": k},
                                      str(expk[k:k + 1]), str(obs[k:k + 1]),
                                      "shape %d differs from the painted subpath (points, class, flags or graphics state)" % k)
    model = ig.model_events([x[4] for x in results])
    for (family, pdf, prog, impl, g), m in zip(results, model):
        if not ig.same(m, impl):
            k = next((j for j in range(min(len(m), len(impl))) if not ig.same(m[j], impl[j])), min(len(m), len(impl)))
            ctx.disagree(family, {"pdf": pdf.hex(), "program": ig.ser_prog(prog).decode("latin-1"), "first_diff": k},
                         ig.render_q(m[k:k + 1]), impl[k:k + 1])


def oracle(ctx):
    pass


def known_match(finding, item):
    return item.get("kind") == "property" and item.get("family") == finding.get("family")


def confirm_known(ctx, finding):
    prog = [("v", Fr(1, 2)), ("op", "g"), ("v", Nm("DeviceRGB")), ("op", "cs"), ("v", 0), ("v", 0), ("op", "m"),
            ("v", 10), ("v", 10), ("op", "l"), ("op", "f")]
    pdf, _ = ig.build_pdf(ig.Resources(), prog, None, split=False)
    ev = [e for e in ig.impl_events(pdf, ig.Names()) if e[0] == 1]
    return bool(ev) and ev[0][9] == [0.5]


def replay(ctx, data):
    item = data.get("violation") or (data.get("correspondence_disagreements") or [None])[0]
    if not item:
        print("nothing to replay; no longer checks:", data.get("no_longer_checks"))
        return
    inp = item["input"]
    print("program:", inp.get("program"))
    pdf = bytes.fromhex(inp["pdf"])
    try:
        for e in ig.impl_events(pdf, ig.Names())[:40]:
            print(e)
    except BaseException as e:  # noqa
        print("raised", repr(e))
    if item.get("kind") == "property":
        ctx.violation("replay", inp, item.get("expected"), item.get("observed"), item.get("what", "") + " (stored verdict; re-run ./check C16)")


if __name__ == "__main__":
    sys.exit(common.main(sys.modules[__name__]))
