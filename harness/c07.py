#!/usr/bin/env python3
"""C07 -- composite fonts: segmentation, CID, Unicode follow CMap, ToUnicode, W/DW (DESIGN.md section 4, C07)."""
import io
import os
import struct
import sys
from fractions import Fraction

sys.path.insert(0, os.path.dirname(os.path.abspath(__file__)))
import common
from common import CZ, CLs, gz, glist, gopt, gq, gbool
from pdfwriter import Name, Ref, Stream, write_pdf

PROP = "C07"
GEN = ["gen_fonts", "gen_text"]
PROPS_FILE = "theories/Props/C07.v"
COQ_TARGETS = ["theories/Props/C07.vo", "theories/Model/CMapsRun.vo"]
DRIVER = None
LEVEL = "proof"
RULE = ("code tries of random shape (1-4 byte codes mixed) and byte strings made of valid codes, junk bytes and truncated "
        "codes; the predefined CMaps (legacy and Unicode encodings of Adobe-Japan1/Korea1/GB1/CNS1, H and V) on codec-encoded "
        "kana/hangul/ideograph strings, the model walking the same trie; Identity-H/V and one-byte identities on strings of "
        "every length parity; ToUnicode streams with bfchar, bfrange (increment and array forms, multi-character and "
        "surrogate-pair targets, names, wrong operand types, mismatched lengths), cidchar/cidrange, parsed by CMapParser; "
        "whole documents with Type0 fonts (Identity-H/V, predefined CMaps, ToUnicode or collection or embedded TrueType "
        "cmap format 4 with delta and range-offset segments, W/DW/W2/DW2 of every grammar form) observed through "
        "LTChar text/adv/bbox; font programs with several cmap subtables (formats 0, 2, 4, an unknown one; Unicode and "
        "other platform records; overlapping segments; duplicate directory tags), whole and truncated at a random byte, "
        "TrueTypeFont.create_unicode_map against its model. Non-trivial: multi-byte codes / a range section / a W entry.")
TRUSTED = [
    "modelled by hand: CMap.decode, IdentityCMap(.Byte).decode, CMapParser's end-section handlers on operand lists, "
    "FileUnicodeMap.add_cid2unichr, get_widths/get_widths2, PDFCIDFont width/disp lookup (Model/CMaps.v); "
    "TrueTypeFont.__init__ / create_unicode_map over the bytes of the font program (Model/TrueType.v); "
    "name2unicode and UTF-16 decoding are the models of C06 / C17",
    "not modelled in Coq: the pickled predefined CMap/to-unicode data (compared with Python's cp932, euc_jp, cp949, euc_kr, "
    "gbk, gb2312, gb18030, big5, big5hkscs, utf-16/utf-8 codecs); the tokenizer/stack machine under CMapParser is C01's",
]
ASSUMPTIONS = ["W/W2 codes are integers; bfrange ranges have at most a few hundred codes (the model is fuelled by the range size)"]
MANIFEST_ENTRY = {
    "category": "proof",
    "technique": "Coq proofs (segmentation by induction on the code list over an arbitrary trie; Identity decode; UTF-16BE "
                 "targets via the C17 round-trip theorem; bfrange increment = last-byte increment via big-endian pack/unpack "
                 "round trip; W arrays = last covering entry by induction on entries; embedded TrueType cmap: format-4 segment "
                 "loop = last covering segment by induction on segments and ranges, big-endian array read-back, inversion "
                 "into cid2unichr sound and complete by an accumulator invariant) + differential runs on generated tries, "
                 "CMap streams and documents; predefined CMap data checked against platform codecs",
    "text": "Theorems: for any code trie, a concatenation of codes (root-to-leaf paths, any mix of lengths) decodes to exactly "
            "their CIDs in order, an unknown byte is skipped; Identity-H/V yields the big-endian pairs and ignores a dangling "
            "byte; a UTF-16BE target of any length is stored as its code points and the newest definition of a code wins; "
            "bfrange increment form equals incrementing the target's last byte whenever it does not overflow; for W arrays of "
            "the ISO grammar the advance is the last covering entry else DW; vertical fonts take DW2/W2. Embedded TrueType "
            "cmap: for any bytes, a completed format-4 segment loop gives every character the glyph of the last segment "
            "covering it ((c + idDelta) mod 65536, or the glyph array entry at idRangeOffset plus idDelta unless it is 0); "
            "a subtable body laid out as the format prescribes, anywhere in the program, is taken apart into exactly its four "
            "arrays (C07_ttf_format4_layout); 16-bit arrays are read back as written at any offset; the text reported for a glyph is a character the table "
            "maps to it, every mapped glyph has a text, a glyph with one character gets exactly it (the byte layout of the "
            "directory and of formats 0/2 is tied by differential runs only). Predefined CMaps: "
            "every kana/hangul/unified ideograph the platform codec can encode and the CMap maps must come back as the same "
            "character (known data deviations listed individually in known_findings.json).",
    "note": "Trusted: Coq kernel, hand model tied by differential runs, Python codecs as the independent reference.",
    "design_ref": "DESIGN.md section 4, C07",
}


# ------------------------------------------------------------------ tries
def gen_trie(r, depth=0):
    d = {}
    for k in r.sample(range(256), r.randint(1, 5)) if depth else r.sample([0, 1, 65, 66, 0x81, 0x8f, 0xa4, 0xe4, 0xff, 0x20], r.randint(2, 7)):
        if depth < 3 and r.random() < (0.5 if depth == 0 else 0.3):
            d[k] = gen_trie(r, depth + 1)
        else:
            d[k] = r.randint(0, 30000)
    return d


def trie_codes(d, prefix=()):
    out = []
    for k, v in d.items():
        if isinstance(v, dict):
            out += trie_codes(v, prefix + (k,))
        else:
            out.append((prefix + (k,), v))
    return out


def g_trie(d):
    return glist(["(%d, %s)" % (k, "TNode %s" % g_trie(v) if isinstance(v, dict) else "TLeaf %s" % gz(v)) for k, v in d.items()])


def restrict(d, bytes_):
    return {k: (restrict(v, bytes_) if isinstance(v, dict) else v) for k, v in d.items() if k in bytes_}


def gzs(bs):
    return "[" + "; ".join(str(b) for b in bs) + "]"


def trie_cases(ctx, n):
    from pdfminer.cmapdb import CMap
    cases, metas = [], []
    for i in range(n):
        r = ctx.sub("trie", i)
        t = gen_trie(r)
        codes = trie_codes(t)
        valid = i % 3 != 2
        data, want = [], []
        for _ in range(r.randint(0, 10)):
            k = r.random()
            if valid or k < 0.6:
                c, cid = r.choice(codes)
                data += c
                want.append(cid)
            elif k < 0.8:
                data.append(r.randrange(256))
            else:
                c, cid = r.choice(codes)
                data += c[:-1]
        cm = CMap()
        cm.code2cid = t
        got = list(cm.decode(bytes(data)))
        fam = "trie" if valid else "trie-junk"
        ctx.case(fam, repr((t, data)), nontrivial=any(len(c) > 1 for c, _ in codes), sample={"trie": repr(t)[:200], "data": bytes(data).hex(), "cids": got})
        if valid and got != want:
            ctx.violation(fam, {"trie": repr(t), "data": bytes(data).hex()}, want, got, "a concatenation of codes did not decode to their CIDs")
        cases.append(("(%s, %s)" % (g_trie(t), gzs(data)), CLs([CZ(c) for c in got])))
        metas.append((t, data))
    bad = common.coq_cases("c07t", ["Model.CMaps", "Model.CMapsRun"], "run_decode", cases, shard=300)
    for i, shown in sorted(bad.items()):
        ctx.disagree("trie", {"trie": repr(metas[i][0]), "data": bytes(metas[i][1]).hex()}, shown, cases[i][1])


def identity_cases(ctx, n):
    from pdfminer.cmapdb import CMapDB
    cases = []
    for i in range(n):
        r = ctx.sub("identity", i)
        name = ["Identity-H", "Identity-V", "OneByteIdentityH", "OneByteIdentityV"][i % 4]
        data = bytes(r.randrange(256) for _ in range(i // 4 % 9 if i < 72 else r.randint(0, 40)))
        try:
            got = list(CMapDB.get_cmap(name).decode(data))
        except BaseException as e:  # noqa
            ctx.violation("identity", {"cmap": name, "data": data.hex()}, "codes", type(e).__name__, "decode raised")
            continue
        byte = name.startswith("OneByte")
        want = list(data) if byte else [data[k] * 256 + data[k + 1] for k in range(0, len(data) - 1, 2)]
        ctx.case("identity", (name, data), nontrivial=len(data) > 2, sample={"cmap": name, "data": data.hex(), "cids": got[:6]})
        if got != want:
            ctx.violation("identity", {"cmap": name, "data": data.hex()}, want, got, "identity CMap segmentation")
        cases.append(("(%s, %s)" % (gbool(byte), gzs(data)), CLs([CZ(c) for c in got])))
    bad = common.coq_cases("c07i", ["Model.CMaps", "Model.CMapsRun"], "run_identity", cases, shard=400)
    for i, shown in sorted(bad.items()):
        ctx.disagree("identity", {"case": cases[i][0]}, shown, cases[i][1])


# ------------------------------------------------------------------ predefined CMaps vs platform codecs
PREDEF = [("90ms-RKSJ-H", "Adobe-Japan1", "cp932", "jk"), ("90ms-RKSJ-V", "Adobe-Japan1", "cp932", "jk"),
          ("EUC-H", "Adobe-Japan1", "euc_jp", "jk"), ("UniJIS-UCS2-H", "Adobe-Japan1", "utf-16-be", "jk"),
          ("UniJIS-UTF16-H", "Adobe-Japan1", "utf-16-be", "jk"), ("UniJIS-UTF8-H", "Adobe-Japan1", "utf-8", "jk"),
          ("UniJIS-UCS2-V", "Adobe-Japan1", "utf-16-be", "jk"), ("KSCms-UHC-H", "Adobe-Korea1", "cp949", "hk"),
          ("KSC-EUC-H", "Adobe-Korea1", "euc_kr", "hk"), ("UniKS-UCS2-H", "Adobe-Korea1", "utf-16-be", "hk"),
          ("UniKS-UTF16-H", "Adobe-Korea1", "utf-16-be", "hk"), ("GBK-EUC-H", "Adobe-GB1", "gbk", "k"),
          ("GB-EUC-H", "Adobe-GB1", "gb2312", "k"), ("UniGB-UCS2-H", "Adobe-GB1", "utf-16-be", "k"),
          ("UniGB-UTF16-H", "Adobe-GB1", "utf-16-be", "k"), ("GBK2K-H", "Adobe-GB1", "gb18030", "k"),
          ("B5pc-H", "Adobe-CNS1", "big5", "k"), ("ETen-B5-H", "Adobe-CNS1", "big5", "k"),
          ("UniCNS-UCS2-H", "Adobe-CNS1", "utf-16-be", "k"), ("UniCNS-UTF16-H", "Adobe-CNS1", "utf-16-be", "k"),
          ("HKscs-B5-H", "Adobe-CNS1", "big5hkscs", "k")]
KANA = [chr(c) for c in range(0x3041, 0x3094)] + [chr(c) for c in range(0x30a1, 0x30f7)]
HANGUL = [chr(c) for c in range(0xac00, 0xd7a4)]
HAN = [chr(c) for c in range(0x4e00, 0x9fa6)]


def encodable(ch, codec):
    try:
        b = ch.encode(codec)
    except UnicodeEncodeError:
        return None
    if codec == "euc_jp" and b[0] == 0x8f:
        return None                       # JIS X 0212 plane: outside the EUC-H code space
    if codec == "euc_kr" and len(b) > 2:
        return None                       # 8-byte make-up sequences
    return b


def predefined_cases(ctx, per_cmap, full):
    from pdfminer.cmapdb import CMapDB
    cases, metas = [], []
    for ci, (cmapname, coll, codec, sets) in enumerate(PREDEF):
        cm = CMapDB.get_cmap(cmapname)
        um = CMapDB.get_unicode_map(coll, cm.is_vertical())
        chars = (KANA if "j" in sets else []) + (HANGUL if "h" in sets else []) + HAN
        r = ctx.sub("predef", cmapname)
        pool = chars if full else r.sample(chars, min(len(chars), 1500))
        enc = [(ch, encodable(ch, codec)) for ch in pool]
        enc = [(ch, b) for ch, b in enc if b is not None]
        # character-level oracle
        for ch, b in enc:
            cids = list(cm.decode(b))
            if len(cids) != 1:
                continue                                    # the collection has no such character
            try:
                t = um.get_unichr(cids[0])
            except KeyError:
                t = None
            ctx.case("predefined", (cmapname, ch), nontrivial=True)
            if t != ch:
                ctx.violation("predefined-data", {"cmap": cmapname, "collection": coll, "cid": cids[0], "char": ch, "code": b.hex(),
                                                  "key": "%s:%d" % (coll, cids[0])}, ch, t,
                              "text of a code differs from the platform codec %s" % codec)
        # strings: segmentation of concatenations, model on the same (restricted) trie
        for j in range(per_cmap):
            rr = ctx.sub("predefstr", cmapname, j)
            picks = [rr.choice(enc) for _ in range(rr.randint(1, 6))]
            data = b"".join(b for _, b in picks)
            if rr.random() < 0.3:
                data += bytes([rr.choice([0x41, 0x20, 0x81, 0xff])])
            got = list(cm.decode(data))
            sep = [c for _, b in picks for c in cm.decode(b)]
            if data == b"".join(b for _, b in picks) and got != sep:
                ctx.violation("predefined", {"cmap": cmapname, "data": data.hex()}, sep, got, "decoding a concatenation differs from decoding its codes")
            ctx.case("predefined-str", (cmapname, data), nontrivial=True, sample={"cmap": cmapname, "data": data.hex(), "cids": got})
            cases.append(("(%s, %s)" % (g_trie(restrict(cm.code2cid, set(data))), gzs(data)), CLs([CZ(c) for c in got])))
            metas.append((cmapname, data))
    bad = common.coq_cases("c07p", ["Model.CMaps", "Model.CMapsRun"], "run_decode", cases, shard=200)
    for i, shown in sorted(bad.items()):
        ctx.disagree("predefined", {"cmap": metas[i][0], "data": metas[i][1].hex()}, shown, cases[i][1])


# ------------------------------------------------------------------ ToUnicode sections
def u16(s):
    return s.encode("utf-16-be")


def rand_target(r):
    return r.choice(["a", "Z", "é", "ffi", "中", "\U0001f600", "한", "ab", " ", " ", "x́"])


class TObj:
    """operand: ('b', bytes) | ('i', int) | ('n', str|bytes) | ('l', [TObj]) | ('o', None)"""


def ser_obj(o):
    k, v = o
    if k == "b":
        return b"<" + v.hex().encode() + b">"
    if k == "i":
        return b"%d" % v
    if k == "n":
        from pdfwriter import ser_name
        return ser_name(v.encode() if isinstance(v, str) else v)
    if k == "l":
        return b"[" + b" ".join(ser_obj(x) for x in v) + b"]"
    return b"1.5"


def g_obj(o):
    k, v = o
    if k == "b":
        return "TBytes %s" % gzs(v)
    if k == "i":
        return "TInt %s" % gz(v)
    if k == "n":
        return "TName %s" % ("None" if isinstance(v, bytes) else "(Some [%s])" % "; ".join(str(ord(c)) for c in v))
    if k == "l":
        return "TList %s" % glist([g_obj(x) for x in v])
    return "TOther"


def gen_sections(r, wf):
    """returns (sections [(kind, [objs])], expected map per ISO for the well-formed family, cids of interest)"""
    secs, exp, cids = [], {}, set()
    for _ in range(r.randint(1, 4)):
        kind = r.choice(["bfchar", "bfrange", "bfrange", "bfchar"] if wf else ["bfchar", "bfrange", "bfrange", "cidchar", "cidrange"])
        objs = []
        for _ in range(r.randint(1, 4)):
            w = r.choice([1, 2, 2]) if wf else r.choice([1, 2, 2, 3, 0])
            if kind == "bfchar":
                c = r.randrange(256 ** w) if w else 0
                t = rand_target(r)
                if wf and t == " ":
                    t = "b"
                objs += [("b", c.to_bytes(w, "big")), ("b", u16(t))]
                cids.add(c)
                exp[c] = t
                if not wf and r.random() < 0.3:
                    objs[-r.choice([1, 2])] = r.choice([("i", 65), ("n", "A"), ("o", None), ("l", [])])
            elif kind == "bfrange":
                n = r.choice([1, 2, 3, 5, 16, 40]) if wf else r.choice([1, 2, 3, 5, 16, 300, 0, -1])
                lo = r.randrange(max(1, 256 ** w - max(n, 0))) if w else 0
                hi = lo + n - 1
                s, e = lo.to_bytes(max(w, 1), "big"), max(hi, 0).to_bytes(max(w, 1), "big") if hi < 256 ** max(w, 1) else b"\xff" * max(w, 1)
                if w == 0:
                    s = e = b""
                if r.random() < 0.55:
                    # increment form
                    if wf:
                        base = r.choice(["a", "A", "中", "\U0001f600", "fi", "한"])
                        tb = bytearray(u16(base))
                        if tb[-1] + n - 1 > 255:
                            tb[-1] = 0
                        for k in range(n):
                            x = bytes(tb[:-1]) + bytes([tb[-1] + k])
                            try:
                                exp[lo + k] = x.decode("utf-16-be")
                            except UnicodeDecodeError:
                                exp.pop(lo + k, None)
                                exp[("skip", lo + k)] = 1
                        code = ("b", bytes(tb))
                    elif r.random() < 0.35:
                        # the increment carries out of the last byte (outside ISO's grammar, common in practice):
                        # model-vs-implementation only
                        code = ("b", bytes([r.choice([0x00, 0x4D, 0xD8]), r.choice([0xF0, 0xFE, 0xFF])]) if r.random() < 0.7
                                else bytes([0x00, 0x41, 0xFF, r.choice([0xFA, 0xFF])]))
                    else:
                        code = r.choice([("b", bytes(r.randrange(256) for _ in range(r.choice([0, 1, 2, 2, 4, 6])))), ("i", 97), ("n", "a"), ("o", None)])
                else:
                    m = n if (wf or r.random() < 0.6) else max(0, n + r.choice([-1, 1]))
                    vs = []
                    for k in range(max(m, 0)):
                        t = rand_target(r)
                        if wf and t == " ":
                            t = "c"
                        if wf or r.random() < 0.8:
                            vs.append(("b", u16(t)))
                            if k < n:
                                exp[lo + k] = t
                        else:
                            vs.append(r.choice([("n", "A"), ("n", "f_i"), ("n", "foo"), ("n", b"\xff"), ("i", 0x4e00), ("i", 0x110000), ("o", None), ("l", [])]))
                    code = ("l", vs)
                if not wf and r.random() < 0.2:
                    e = e + b"\x00"
                objs += [("b", s), ("b", e), code]
                cids |= {lo - 1, lo, lo + 1, hi, hi + 1}
                if not wf and r.random() < 0.15:
                    objs[-3] = ("i", 5)
            elif kind == "cidchar":
                c = r.randrange(300)
                objs += r.choice([[("i", c), ("b", u16(rand_target(r)))], [("b", b"A"), ("i", c)], [("i", c), ("n", "A")]])
                cids.add(c)
            else:
                lo = r.randrange(60000)
                n = r.choice([1, 3, 10])
                c = r.randrange(300)
                w2 = r.choice([1, 2, 2, 5])
                s = (lo % 256 ** min(w2, 4)).to_bytes(w2, "big")
                e = ((lo + n - 1) % 256 ** min(w2, 4)).to_bytes(w2, "big")
                objs += [("b", s), ("b", e), r.choice([("i", c), ("i", c), ("b", b"x")])]
                cids |= {c, c + 1, c + n - 1, c + n}
        if not wf and r.random() < 0.2:
            objs = objs[:-1]
        secs.append((kind, objs))
    return secs, exp, sorted(c for c in cids if c >= 0)


def ser_sections(secs):
    out = [b"/CIDInit /ProcSet findresource begin", b"12 dict begin", b"begincmap", b"/CMapType 2 def",
           b"1 begincodespacerange <00> <FFFF> endcodespacerange"]
    for kind, objs in secs:
        out.append(b"%d begin%s" % (len(objs), kind.encode()))
        out.append(b" ".join(ser_obj(o) for o in objs))
        out.append(b"end" + kind.encode())
    out += [b"endcmap", b"end end"]
    return b"\n".join(out) + b"\n"


def g_sections(secs):
    names = {"bfchar": "SBfChar", "bfrange": "SBfRange", "cidchar": "SCidChar", "cidrange": "SCidRange"}
    return glist(["%s %s" % (names[k], glist([g_obj(o) for o in objs])) for k, objs in secs])


def parse_tounicode(data):
    from pdfminer.cmapdb import CMapParser, FileUnicodeMap
    from pdfminer.pdfexceptions import PDFTypeError
    m = FileUnicodeMap()
    try:
        CMapParser(m, io.BytesIO(data)).run()
    except PDFTypeError:
        return None, -1
    except AssertionError:
        return None, -2
    except (struct.error, ValueError, OverflowError):
        return None, -3
    except KeyError:
        return None, -4
    return m.cid2unichr, 0


def tounicode_cases(ctx, n):
    cases, metas = [], []
    for i in range(n):
        r = ctx.sub("tounicode", i)
        wf = i % 2 == 0
        secs, exp, cids = gen_sections(r, wf)
        data = ser_sections(secs)
        try:
            got, err = parse_tounicode(data)
        except BaseException as e:  # noqa
            ctx.violation("tounicode", {"stream": data.decode("latin-1")}, "a map or a documented error", type(e).__name__, "CMapParser raised")
            continue
        fam = "tounicode" if wf else "tounicode-malformed"
        ctx.case(fam, data, nontrivial=any(k == "bfrange" for k, _ in secs), sample={"stream": data.decode("latin-1")[-300:], "err": err})
        if wf:
            if err:
                ctx.violation(fam, {"stream": data.decode("latin-1")}, "a map", err, "a well-formed ToUnicode CMap was rejected")
                continue
            for c, t in exp.items():
                if isinstance(c, tuple) or ("skip", c) in exp:
                    continue
                if got.get(c) != t:
                    ctx.violation(fam, {"stream": data.decode("latin-1"), "code": c}, t, got.get(c), "ToUnicode target of a code (ISO 32000-1 9.10.3)")
                    break
        if err:
            want = CZ(err)
        else:
            want = CLs([CLs([]) if c not in got else CLs([CLs([CZ(ord(ch)) for ch in got[c]])]) for c in cids])
        cases.append(("(%s, %s)" % (g_sections(secs), gzs(cids)), want))
        metas.append(data)
    bad = common.coq_cases("c07u", ["Model.CMaps", "Model.CMapsRun"], "run_tounicode", cases, shard=150)
    for i, shown in sorted(bad.items()):
        ctx.disagree("tounicode", {"stream": metas[i].decode("latin-1")}, shown, cases[i][1])


# ------------------------------------------------------------------ W arrays and whole documents
def gen_w(r, wf):
    """returns (pdf array, gallina witems, ISO map cid->width) ; widths Fractions"""
    arr, items, iso = [], [], {}

    def num(q, isint=None):
        isint = q.denominator == 1 if isint is None else isint
        arr.append(int(q) if isint else float(q))
        items.append("WN %s %s" % (gq(q), gbool(isint)))
    for _ in range(r.randint(0, 4)):
        c = r.choice([0, 1, 32, 65, 100, 500, 1000, 20000])
        if r.random() < 0.5:
            ws = [Fraction(r.choice([0, 250, 500, 600, 1000, 1234])) if r.random() < 0.85 else Fraction(r.randint(0, 30000), 8) for _ in range(r.randint(0, 5))]
            num(Fraction(c))
            sub, gsub = [], []
            for k, w in enumerate(ws):
                if not wf and r.random() < 0.1:
                    sub.append(None)
                    gsub.append("WX")
                    iso.pop(c + k, None)
                    iso[("bad", c + k)] = 1
                else:
                    sub.append(int(w) if w.denominator == 1 else float(w))
                    gsub.append("WN %s %s" % (gq(w), gbool(w.denominator == 1)))
                    iso[c + k] = w
                    iso.pop(("bad", c + k), None)
            arr.append(sub)
            items.append("WL %s" % glist(gsub))
        else:
            c2 = c + r.choice([0, 1, 5, 40]) if (wf or r.random() < 0.8) else c - 2
            w = Fraction(r.choice([250, 500, 750, 1000])) if r.random() < 0.8 else Fraction(r.randint(0, 9999), 4)
            # malformed family: one or both CID bounds of a range written as reals (5.0): the entry is to be skipped
            which = r.choice([0, 1, 2]) if (not wf and r.random() < 0.25) else None
            num(Fraction(c), isint=False if which in (0, 2) else None)
            num(Fraction(c2), isint=False if which in (1, 2) else None)
            num(w)
            if which is None:
                for k in range(c, c2 + 1):
                    iso[k] = w
                    iso.pop(("bad", k), None)
        if not wf and r.random() < 0.25:
            k = r.random()
            if k < 0.4:
                num(Fraction(r.randint(0, 50)))          # a stray number shifts the grouping
            elif k < 0.7:
                arr.append(Name("x"))
                items.append("WX")
            else:
                arr.append([1, 2])
                items.append("WL [WN (1 # 1) true; WN (2 # 1) true]")
    return arr, glist(items), iso


def gen_w2(r):
    arr, items = [], []
    for _ in range(r.randint(0, 3)):
        c = r.choice([0, 1, 65, 100, 500])
        if r.random() < 0.5:
            sub, gsub = [], []
            for _ in range(r.randint(1, 3)):
                for v in (-r.choice([500, 1000, 750]), r.choice([250, 500]), r.choice([880, 800, 1000])):
                    sub.append(v)
                    gsub.append("WN (%d # 1) true" % v)
            arr += [c, sub]
            items += ["WN (%d # 1) true" % c, "WL %s" % glist(gsub)]
        else:
            vals = [c, c + r.choice([0, 3]), -r.choice([500, 1000]), r.choice([250, 500]), r.choice([880, 820])]
            arr += vals
            items += ["WN (%d # 1) true" % v for v in vals]
    return arr, glist(items)


def fmt4(segs):
    segs = segs + [(0xFFFF, 0xFFFF, 1, None)]
    n = len(segs)
    garr, idrs = [], []
    for i, (s, e, d, gl) in enumerate(segs):
        if gl is None:
            idrs.append(0)
        else:
            idrs.append((n - i) * 2 + 2 * len(garr))
            garr += gl
    body = struct.pack(">HHHH", n * 2, 0, 0, 0)
    body += b"".join(struct.pack(">H", e) for s, e, d, g in segs) + b"\0\0"
    body += b"".join(struct.pack(">H", s) for s, e, d, g in segs)
    body += b"".join(struct.pack(">h", d) for s, e, d, g in segs)
    body += b"".join(struct.pack(">H", x) for x in idrs)
    body += b"".join(struct.pack(">H", g) for g in garr)
    return struct.pack(">HHH", 4, 6 + len(body), 0) + body


def gen_ttf(r):
    """returns (font file bytes, gid -> char expected)"""
    segs, exp = [], {}
    start = 0x20
    for _ in range(r.randint(1, 5)):
        start += r.randint(1, 0x300)
        n = r.randint(1, 6)
        if r.random() < 0.5:
            delta = r.randint(-20, 300)
            segs.append((start, start + n - 1, delta, None))
            for k in range(n):
                exp.setdefault((start + k + delta) & 0xFFFF, chr(start + k))
        else:
            delta = r.choice([0, 0, 3])
            gl = [r.choice([0, r.randint(1, 400)]) for _ in range(n)]
            segs.append((start, start + n - 1, delta, gl))
            for k, g in enumerate(gl):
                if g:
                    exp.setdefault((g + delta) & 0xFFFF, chr(start + k))
        start += n
    sub = fmt4(segs)
    if r.random() < 0.3:
        # a (3,10) format-12 subtable beside the (3,1) format-4 one, as most current fonts have: a format this reader
        # does not know, to be skipped without losing the format-4 mapping
        k = r.randint(1, 3)
        sub12 = struct.pack(">HHLLL", 12, 0, 16 + 12 * k, 0, k) + b"".join(struct.pack(">LLL", 0x10000 + 16 * j, 0x10000 + 16 * j + 3, 7 + j) for j in range(k))
        cmap = struct.pack(">HH", 0, 2) + struct.pack(">HHL", 3, 1, 20) + struct.pack(">HHL", 3, 10, 20 + len(sub)) + sub + sub12
    else:
        cmap = struct.pack(">HH", 0, 1) + struct.pack(">HHL", 3, 1, 12) + sub
    hdr = b"\0\1\0\0" + struct.pack(">HHHH", 1, 0, 0, 0) + struct.pack(">4sLLL", b"cmap", 0, 28, len(cmap))
    return hdr + cmap, exp


def gen_ttf_any(r):
    """a font program for the model family: several cmap subtables of formats 0, 2, 4 and unknown ones under Unicode
    and non-Unicode platform records, overlapping characters, duplicate directory tags, then possibly truncated"""
    subs = []
    for _ in range(r.randint(1, 3)):
        kind = r.choice([4, 4, 4, 0, 2, 6])
        if kind == 4:
            segs, start = [], r.choice([0x20, 0x90, 0x3000])
            for _ in range(r.randint(1, 4)):
                start += r.randint(0, 0x40)
                n = r.randint(1, 6)
                if r.random() < 0.5:
                    segs.append((start, start + n - 1, ((r.choice([-start + 3, -20, 0, 300, 65530 - start, -32768]) + 32768) % 65536 - 32768), None))
                else:
                    segs.append((start, start + n - 1, r.choice([0, 0, 3, -1]), [r.choice([0, r.randint(1, 400), 65535]) for _ in range(n)]))
                start += n - r.choice([0, 0, 1])            # segments may overlap by one character
            body = fmt4(segs)
        elif kind == 0:
            body = struct.pack(">HHH", 0, 262, 0) + bytes(r.choice([0, 0, r.randint(1, 255)]) for _ in range(256))
        elif kind == 2:
            nh = r.randint(1, 3)
            keys = [0] * 256
            for k in range(1, nh):
                keys[r.choice([0x81, 0x82, 0x9f, 0xe0])] = 8 * k
            hdrs, garr = [], []
            for k in range(nh):
                cnt = r.choice([0, 1, 3, 5])
                hdrs.append((r.choice([0x20, 0x40, 0xa0]), cnt, r.choice([0, 5, -3]), len(garr)))
                garr += [r.choice([0, r.randint(1, 300)]) for _ in range(cnt)]
            hb = b""
            for k, (fc, cnt, dl, goff) in enumerate(hdrs):
                # idRangeOffset counts from its own position to the glyph
                off = (nh - k) * 8 - 6 + 2 * goff
                hb += struct.pack(">HHhH", fc, cnt, dl, off)
            body = struct.pack(">HHH", 2, 0, 0) + struct.pack(">256H", *keys) + hb + b"".join(struct.pack(">H", g) for g in garr)
        else:
            body = struct.pack(">HHHHH", 6, 10 + 2 * 3, 0, 0x41, 3) + struct.pack(">HHH", 5, 6, 7)
        pid, eid = r.choice([(3, 1), (3, 1), (0, 3), (3, 10), (1, 0), (3, 0)])
        subs.append((pid, eid, body))
    n = len(subs)
    off = 4 + 8 * n
    recs, blob = b"", b""
    for pid, eid, body in subs:
        recs += struct.pack(">HHL", pid, eid, off + len(blob))
        blob += body
    cmap = struct.pack(">HH", 0, n) + recs + blob
    tabs = [(b"cmap", cmap)]
    if r.random() < 0.3:
        tabs.insert(0, (b"head", b"\0" * 8))
    if r.random() < 0.1:
        tabs.insert(0, (b"cmap", b"\0\0\0\0"))          # the later entry of a tag is the one kept
    if r.random() < 0.05:
        tabs = [t for t in tabs if t[0] != b"cmap"]
    pos = 12 + 16 * len(tabs)
    hdr, data = b"\0\1\0\0" + struct.pack(">HHHH", len(tabs), 0, 0, 0), b""
    for tag, t in tabs:
        hdr += struct.pack(">4sLLL", tag, 0, pos + len(data), len(t))
        data += t
    font = hdr + data
    if r.random() < 0.25:
        font = font[:r.randint(0, len(font))]
    return font


def ttf_model_cases(ctx, n):
    """the model of TrueTypeFont.__init__ / create_unicode_map against the implementation on font programs of every
    supported subtable format, whole or truncated"""
    from pdfminer.pdffont import TrueTypeFont
    cases, metas = [], []
    for i in range(n):
        r = ctx.sub("ttfm", i)
        font = gen_ttf_any(r)
        try:
            m = TrueTypeFont("x", io.BytesIO(font)).create_unicode_map().cid2unichr
            err = None
        except TrueTypeFont.CMapNotFound:
            m, err = {}, -1
        except BaseException as e:  # noqa
            ctx.violation("ttf-model", {"font": font.hex()}, "a map or CMapNotFound", type(e).__name__, "create_unicode_map raised")
            continue
        gids = sorted(m)[:60] + [r.randint(0, 500) for _ in range(6)] + [0, 65535]
        ctx.case("ttf-model", font, nontrivial=err is None and len(m) > 1, sample={"font": font.hex()[:120], "entries": len(m), "err": err})
        if err:
            want = CZ(err)
        else:
            want = CLs([CLs([]) if g not in m else CLs([CLs([CZ(ord(ch)) for ch in m[g]])]) for g in gids])
        cases.append(("(%s, %s)" % (gzs(font), gzs(gids)), want))
        metas.append(font)
    bad = common.coq_cases("c07t", ["Model.CMaps", "Model.TrueType", "Model.CMapsRun"], "run_ttf", cases, shard=60)
    for i, shown in sorted(bad.items()):
        ctx.disagree("ttf-model", {"font": metas[i].hex()}, shown, cases[i][1])


def docs_cases(ctx, n):
    from pdfminer.pdfparser import PDFParser
    from pdfminer.pdfdocument import PDFDocument
    from pdfminer.pdfpage import PDFPage
    from pdfminer.pdfinterp import PDFResourceManager, PDFPageInterpreter
    from pdfminer.converter import PDFPageAggregator
    from pdfminer.layout import LTChar
    inputs, metas = [], []
    for i in range(n):
        r = ctx.sub("doc", i)
        vertical = i % 3 == 2
        wf = i % 4 != 3
        mode = r.choice(["tounicode", "tounicode", "none", "ttf", "japan"])
        enc = ("Identity-V" if vertical else "Identity-H")
        ordering = "Identity"
        if mode == "japan":
            enc, ordering = ("90ms-RKSJ-V" if vertical else "90ms-RKSJ-H"), "Japan1"
        warr, witems, iso = gen_w(r, wf)
        dw = Fraction(r.choice([1000, 1000, 500, 0])) if r.random() < 0.6 else None
        w2arr, w2items = gen_w2(r) if vertical and r.random() < 0.7 else ([], "[]")
        dw2 = (r.choice([880, 800]), -r.choice([1000, 500])) if vertical and r.random() < 0.5 else None
        desc = {"Type": Name("Font"), "Subtype": Name("CIDFontType2"), "BaseFont": Name("Foo"),
                "CIDSystemInfo": {"Registry": b"Adobe", "Ordering": ordering.encode(), "Supplement": 0},
                "FontDescriptor": Ref(12)}
        if warr or r.random() < 0.3:
            desc["W"] = warr
        if dw is not None:
            desc["DW"] = int(dw)
        if w2arr:
            desc["W2"] = w2arr
        if dw2 is not None:
            desc["DW2"] = list(dw2)
        fdesc = {"Type": Name("FontDescriptor"), "FontName": Name("Foo"), "Flags": 4, "FontBBox": [0, -200, 1000, 800],
                 "Ascent": 800, "Descent": -200}
        objs = {1: {"Type": Name("Catalog"), "Pages": Ref(2)}, 2: {"Type": Name("Pages"), "Kids": [Ref(5)], "Count": 1},
                10: {"Type": Name("Font"), "Subtype": Name("Type0"), "BaseFont": Name("Foo"), "Encoding": Name(enc),
                     "DescendantFonts": [Ref(11)]}, 11: desc, 12: fdesc}
        # codes shown
        if mode == "japan":
            chars = [r.choice(KANA + HAN[:3000]) for _ in range(8)]
            chars = [c for c in chars if encodable(c, "cp932")]
            data = b"".join(c.encode("cp932") for c in chars)
            cids = None
        else:
            pool = sorted(k for k in iso if not isinstance(k, tuple)) + [0, 1, 65, 66, 100, 999, 20001]
            cids = [r.choice(pool) for _ in range(8)] + [k for k in iso if isinstance(k, tuple) for k in [k[1]]][:2]
            cids = [c for c in cids if 0 <= c < 65536]
            data = b"".join(struct.pack(">H", c) for c in cids)
            if r.random() < 0.2:
                data += b"\x00"
        texts = {}
        if mode == "tounicode":
            secs, exp, _ = gen_sections(r, True)
            if cids:
                extra = [("b", struct.pack(">H", cids[0])), ("b", u16("Ω"))]
                secs.append(("bfchar", extra))
                exp[cids[0]] = "Ω"
            objs[13] = Stream({}, ser_sections(secs))
            objs[10]["ToUnicode"] = Ref(13)
            texts = {c: t for c, t in exp.items() if not isinstance(c, tuple) and ("skip", c) not in exp}
            skip = {c[1] for c in exp if isinstance(c, tuple)}
        elif mode == "ttf":
            ttf, exp = gen_ttf(r)
            objs[14] = Stream({"Length1": len(ttf)}, ttf)
            fdesc["FontFile2"] = Ref(14)
            gids = sorted(exp)
            if gids and cids is not None:
                cids = cids[:4] + [r.choice(gids) for _ in range(4)]
                data = b"".join(struct.pack(">H", c) for c in cids)
            texts, skip = None, set()
        else:
            skip = set()
        content = b"BT /F1 8 Tf 1 0 0 1 100 700 Tm <" + data.hex().encode() + b"> Tj ET\n"
        objs[6] = Stream({}, content)
        objs[5] = {"Type": Name("Page"), "Parent": Ref(2), "MediaBox": [0, 0, 612, 792], "Contents": Ref(6),
                   "Resources": {"Font": {"F1": Ref(10)}}}
        pdf = write_pdf(objs, 1)
        fam = "doc-" + mode + ("-v" if vertical else "")
        try:
            doc = PDFDocument(PDFParser(io.BytesIO(pdf)))
            rm = PDFResourceManager()
            dev = PDFPageAggregator(rm, laparams=None)
            interp = PDFPageInterpreter(rm, dev)
            for page in PDFPage.create_pages(doc):
                interp.process_page(page)
            chars_out = [o for o in dev.get_result() if isinstance(o, LTChar)]
        except BaseException as e:  # noqa
            ctx.violation(fam, {"pdf": pdf.hex()}, "glyphs", type(e).__name__ + ": " + str(e)[:200], "composite font construction or rendering raised")
            continue
        got = [(o.get_text(), o.adv, o.matrix, o.bbox) for o in chars_out]
        ctx.case(fam, pdf, nontrivial=bool(warr) or mode != "none", sample={"mode": mode, "enc": enc, "W": repr(warr)[:120], "glyphs": [(g[0], g[1]) for g in got[:4]]})
        if mode == "japan":
            want = "".join(chars)
            if len(got) != len(chars):
                ctx.violation(fam, {"pdf": pdf.hex(), "string": want}, want, "".join(g[0] for g in got), "text of a cp932-encoded string under 90ms-RKSJ")
            else:
                from pdfminer.cmapdb import CMapDB
                cm = CMapDB.get_cmap(enc)
                for ch, g in zip(chars, got):
                    if g[0] != ch:
                        cid = list(cm.decode(ch.encode("cp932")))[0]
                        # a character of the recorded data deviation is the same finding seen through a document
                        ctx.violation("predefined-data", {"cmap": enc, "collection": "Adobe-Japan1", "cid": cid, "char": ch,
                                                          "key": "Adobe-Japan1:%d" % cid, "pdf": pdf.hex()}, ch, g[0],
                                      "text of a cp932-encoded character under %s" % enc)
            continue
        if len(got) != len(cids):
            ctx.violation(fam, {"pdf": pdf.hex(), "cids": cids}, len(cids), len(got), "number of glyphs differs from the number of two-byte codes")
            continue
        # ISO oracle
        fs = 8
        for k, c in enumerate(cids):
            if mode == "ttf":
                if c in exp and c != 0:
                    pass       # several characters may share a glyph: checked in ttf_cases
            elif c not in skip:
                wt = texts.get(c, "(cid:%d)" % c) if mode == "tounicode" else "(cid:%d)" % c
                if got[k][0] != wt:
                    ctx.violation(fam, {"pdf": pdf.hex(), "cid": c}, wt, got[k][0], "text of a code under Identity encoding with/without ToUnicode")
                    break
            if not vertical and wf and ("bad", c) not in iso:
                ww = iso.get(c, dw if dw is not None else Fraction(1000))
                if abs(got[k][1] - float(ww) * fs / 1000) > 1e-7 * max(1.0, abs(float(ww))):
                    ctx.violation(fam, {"pdf": pdf.hex(), "cid": c}, float(ww) * fs / 1000, got[k][1], "advance differs from W / DW")
                    break
            if k + 1 < len(cids):
                d = (got[k + 1][2][5] - got[k][2][5]) if vertical else (got[k + 1][2][4] - got[k][2][4])
                if abs(d - got[k][1]) > 1e-6:
                    ctx.violation(fam, {"pdf": pdf.hex(), "cid": c}, got[k][1], d, "next glyph origin is not displaced by the advance")
                    break
        f = "(mkCID %s %s %s %s (%s, %s))" % (gbool(vertical), witems, gq(dw if dw is not None else Fraction(1000)), w2items,
                                            gq(Fraction(dw2[0] if dw2 else 880)), gq(Fraction(dw2[1] if dw2 else -1000)))
        inputs.append("(%s, %s)" % (f, gzs(cids)))
        metas.append((pdf, cids, got, vertical, fam, iso, dw, wf))
    res = common.coq_eval("c07d", ["Model.CMaps", "Model.CMapsRun"], "run_cidfont", inputs, shard=40)
    fs = 8.0
    for (pdf, cids, got, vertical, fam, iso, dw, wf), val in zip(metas, res):
        widths, disps = val
        if vertical and wf:
            # ISO 32000-1 9.7.4.3: without a W2 entry the position vector's x is half the glyph's HORIZONTAL width
            for k, c in enumerate(cids):
                if disps[k][0] or ("bad", c) in iso:
                    continue
                w0 = iso.get(c, dw if dw is not None else Fraction(1000))
                want_x0 = got[k][2][4] - float(w0) / 2 * fs / 1000
                if abs(want_x0 - got[k][3][0]) > 1e-6:
                    ctx.violation("vertical-default-vx", {"pdf": pdf.hex(), "cid": c, "w0": float(w0)}, want_x0, got[k][3][0],
                                  "default vertical origin is not half the glyph's horizontal width from the text position")
                    break
        for k, c in enumerate(cids):
            mw = Fraction(widths[k][0], widths[k][1])
            adv = float(mw) * 0.001 * fs
            ok = abs(adv - got[k][1]) <= 1e-7 * max(1.0, abs(adv))
            if ok and vertical:
                vxo, vy = disps[k]
                vy = float(Fraction(vy[0], vy[1]))
                vx = fs * 0.5 if not vxo else float(Fraction(vxo[0][0], vxo[0][1])) * fs * 0.001
                vyy = (1000 - vy) * fs * 0.001
                e, f_ = got[k][2][4], got[k][2][5]
                box = (e - vx, f_ + vyy + adv, e - vx + fs, f_ + vyy)
                box = (min(box[0], box[2]), min(box[1], box[3]), max(box[0], box[2]), max(box[1], box[3]))
                ok = all(abs(a - b) < 1e-6 for a, b in zip(box, got[k][3]))
            if not ok:
                ctx.disagree(fam, {"pdf": pdf.hex(), "cid": c}, [float(mw), disps[k] if vertical else None], [got[k][1], list(got[k][3])])
                break


def ttf_oracle(ctx, n):
    """TrueTypeFont.create_unicode_map against the table writer: every (gid, char) reported must be an entry of the
    table, and every non-zero glyph of the table must be reported with one of its characters"""
    from pdfminer.pdffont import TrueTypeFont
    for i in range(n):
        r = ctx.sub("ttf", i)
        data, first = gen_ttf(r)
        # rebuild the full relation char -> gid with the same random stream
        r2 = ctx.sub("ttf", i)
        rel = {}
        start = 0x20
        for _ in range(r2.randint(1, 5)):
            start += r2.randint(1, 0x300)
            cnt = r2.randint(1, 6)
            if r2.random() < 0.5:
                delta = r2.randint(-20, 300)
                for k in range(cnt):
                    rel[chr(start + k)] = (start + k + delta) & 0xFFFF
            else:
                delta = r2.choice([0, 0, 3])
                gl = [r2.choice([0, r2.randint(1, 400)]) for _ in range(cnt)]
                for k, g in enumerate(gl):
                    rel[chr(start + k)] = ((g + delta) & 0xFFFF) if g else 0
            start += cnt
        try:
            m = TrueTypeFont("x", io.BytesIO(data)).create_unicode_map().cid2unichr
        except BaseException as e:  # noqa
            ctx.violation("ttf", {"font": data.hex()}, "a map", type(e).__name__, "create_unicode_map raised")
            continue
        ctx.case("ttf", data, nontrivial=True, sample={"font": data.hex()[:100], "entries": len(m)})
        for gid, ch in m.items():
            if ch == "￿" or gid == 0:
                continue
            if rel.get(ch) != gid:
                ctx.violation("ttf", {"font": data.hex(), "gid": gid}, "a character whose glyph is %d" % gid, ch, "TrueType cmap: glyph reported for the wrong character")
                break
        for ch, gid in rel.items():
            if gid and gid not in m:
                ctx.violation("ttf", {"font": data.hex(), "gid": gid}, ch, None, "TrueType cmap: mapped glyph has no text")
                break


def correspondence(ctx):
    trie_cases(ctx, ctx.n(600, 12000))
    identity_cases(ctx, ctx.n(160, 3000))
    predefined_cases(ctx, ctx.n(12, 200), full=ctx.tier != "quick")
    tounicode_cases(ctx, ctx.n(400, 8000))
    ttf_oracle(ctx, ctx.n(150, 3000))
    ttf_model_cases(ctx, ctx.n(240, 4000))
    docs_cases(ctx, ctx.n(120, 2500))


def oracle(ctx):
    pass


def known_match(finding, item):
    if item.get("kind") != "property" or item.get("family") != finding.get("family"):
        return False
    if finding.get("family") == "predefined-data":
        return item.get("input", {}).get("key") in finding.get("keys", [])
    return True


def confirm_known(ctx, finding):
    if finding.get("family") == "predefined-data":
        from pdfminer.cmapdb import CMapDB
        um = CMapDB.get_unicode_map("Adobe-Japan1", False)
        return um.cid2unichr.get(8371) == "\u2f01"
    return False                     # reported only when the run meets it


def replay(ctx, data):
    item = data.get("violation") or (data.get("correspondence_disagreements") or [None])[0]
    print("replay: re-run ./check C07; stored case:", str(item)[:1500])


if __name__ == "__main__":
    sys.exit(common.main(sys.modules[__name__]))
