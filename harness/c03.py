#!/usr/bin/env python3
"""C03 -- stream payloads and filter chains decode to exactly the original bytes (DESIGN.md section 4, C03)."""
import binascii
import io
import os
import sys
import zlib

sys.path.insert(0, os.path.dirname(os.path.abspath(__file__)))
import common
from common import CZ, CBy, CLs, gz, glist, gopt, gbytes
from pdfwriter import Name, Ref, Stream, Raw, ser, write_pdf

PROP = "C03"
GEN = ["gen_filters"]
PROPS_FILE = "theories/Props/C03.v"
COQ_TARGETS = ["theories/Props/C03.vo", "theories/Model/FiltersRun.vo"]
DRIVER = None
LEVEL = "proof"
RULE = ("payloads 0-600 bytes (random, runs, text, containing 'endstream', EOLs, NULs) encoded by harness encoders that "
        "sample the encoders' freedoms (RunLength run splitting, hex case/white space/odd final digit, ASCII85 z/white "
        "space/~> framing, LZW with early change, PNG per-row filter types 0-4 and TIFF-2 over colors 1-4 x columns 1-9 x "
        "bits 8 (PNG also 1)); decoded by the pdfminer functions directly and through PDFStream.get_data() of objects read by "
        "PDFDocument.getobj with chains up to length 3 under full/abbreviated names, Length/Filter/DecodeParms direct or "
        "indirect, LF/CRLF after 'stream'; every decoder also run against Model/Filters.v on the same bytes and on "
        "truncated/corrupted bytes (error classes compared). Non-trivial: payload >= 8 bytes; distinct = distinct encoded bytes.")
TRUSTED = [
    "modelled by hand: rldecode, asciihexdecode, ascii85decode's regex strips, LZWDecoder, apply_png/tiff_predictor, the "
    "filter loop of PDFStream.decode (Model/Filters.v); generated: paeth_predictor and the filter-name tables "
    "(Gen/FilterGen.v). base64.a85decode and binascii.unhexlify are MODELLED (their agreement with the model is a "
    "correspondence obligation); zlib is an oracle with the hypothesis inflate(deflate x) = x",
]
ASSUMPTIONS = ["settings.STRICT is False", "Length is correct (the property's case); payload delimitation with a wrong Length is C13's"]
MANIFEST_ENTRY = {
    "category": "proof",
    "technique": "Coq proofs: decoder(encoder relation) = identity by induction on runs/digits/groups/rows for RunLength, "
                 "ASCIIHex, ASCII85, PNG and TIFF predictors and for chains; LZW by a dictionary-synchronisation invariant (decoder one "
                 "entry behind) over any admissible phrase factorisation, plus an arithmetic specification of the bit reader; "
                 "Flate by correspondence; differential "
                 "runs of every decoder model against the implementation on valid and damaged encodings",
    "text": "Theorems for ALL byte strings: RunLength (every split into literal/repeat runs, with or without EOD), ASCIIHex "
            "(any case, interleaved white space, '>' with trailing junk, odd final digit), ASCII85 (full groups, z "
            "shorthand, partial final group, white space, ~> framing), PNG predictors for every colors/columns geometry at "
            "8 bits and every per-row filter choice, TIFF predictor 2, and composition of any chain whose stages round-trip. "
            "LZW: the codes of ANY admissible factorisation of the data into phrases (single bytes or dictionary entries, "
            "greedy or not, incl. the not-yet-built entry) carried most-significant-bit first in the widths the decoder "
            "expects (early change) after a clear-table code, with or without end-of-data, decode to the data; readbits is "
            "proved to take the next w bits at every stream position; any number of such segments, each introduced by a "
            "clear-table code. Flate stages and the payload delimitation are tied by differential runs only.",
    "note": "Trusted: Coq kernel, translator (paeth, name tables), hand models tied by correspondence, harness encoders. "
            "zlib, base64.a85decode and binascii.unhexlify are modelled/oracles. Fix bcc9a95 (PNG row geometry) was needed.",
    "design_ref": "DESIGN.md section 4, C03",
}


# ------------------------------------------------------------------ harness encoders (twins of Spec encoders)
def rl_encode(r, data, eod=True):
    out = bytearray()
    i = 0
    while i < len(data):
        run = 1
        while i + run < len(data) and data[i + run] == data[i] and run < 128:
            run += 1
        if run >= 2 and r.random() < 0.8:
            # the longest run (length byte 129 = 128 copies) and the shortest as often as anything between
            n = r.choice([run, run, 2, r.randint(2, run)])
            out += bytes([257 - n, data[i]])
            i += n
        else:
            m = min(128, len(data) - i)
            n = r.choice([m, 1, r.randint(1, m)])          # the longest literal (length byte 127) as often
            out += bytes([n - 1]) + data[i:i + n]
            i += n
    if eod:
        out.append(128)
    return bytes(out)


def hex_encode(r, data):
    out = bytearray()
    digs = data.hex()
    term = r.random() < 0.8
    if term and digs.endswith("0") and r.random() < 0.3:
        digs = digs[:-1]
    for ch in digs:
        while r.random() < 0.1:
            out += r.choice([b" ", b"\n", b"\r", b"\t", b"\x0c", b"\x0b"])
        out += (ch.upper() if r.random() < 0.5 else ch).encode()
    if term:
        out += b">" + (r.choice([b"", b"\n", b"junk 12"]) if r.random() < 0.5 else b"")
    return bytes(out)


def a85_encode(r, data):
    out = bytearray()
    if r.random() < 0.2:
        out += r.choice([b"<~", b" <~ ", b"~"])
    for i in range(0, len(data), 4):
        grp = data[i:i + 4]
        n = len(grp)
        v = int.from_bytes(grp + b"\0" * (4 - n), "big")
        if v == 0 and n == 4 and r.random() < 0.8:
            out += b"z"
        else:
            ds = []
            for _ in range(5):
                ds.append(v % 85 + 33)
                v //= 85
            out += bytes(reversed(ds))[:n + 1]
        while r.random() < 0.08:
            out += r.choice([b" ", b"\n", b"\r", b"\t"])
    out += r.choice([b"~>", b"~>", b"~>\n", b" ~ > ", b"~", b""])
    return bytes(out)


def lzw_encode(r, data):
    """standard PDF LZW encoder, early change = 1, clear-table first and when the table is full"""
    codes = [256]
    table = {bytes([i]): i for i in range(256)}
    nxt = 258
    w = b""
    for b in data:
        wb = w + bytes([b])
        if wb in table:
            w = wb
        else:
            codes.append(table[w])
            table[wb] = nxt
            nxt += 1
            w = bytes([b])
            if nxt > 4093 or (r.random() < 0.002):
                codes.append(table[w])
                codes.append(256)
                table = {bytes([i]): i for i in range(256)}
                nxt = 258
                w = b""
    if w:
        codes.append(table[w])
    codes.append(257)
    # pack with the width schedule of a decoder whose table lags one entry behind
    out = 0
    nb = 0
    width = 9
    tlen = 258          # decoder table length
    first = True        # after clear: next code adds no entry
    for c in codes:
        out = (out << width) | c
        nb += width
        if c == 256:
            width, tlen, first = 9, 258, True
        elif c == 257:
            pass
        elif first:
            first = False
        else:
            tlen += 1
            if tlen == 511:
                width = 10
            elif tlen == 1023:
                width = 11
            elif tlen == 2047:
                width = 12
    pad = (-nb) % 8
    out <<= pad
    nb += pad
    return out.to_bytes(nb // 8, "big")


def paeth(a, b, c):
    p = a + b - c
    pa, pb, pc = abs(p - a), abs(p - b), abs(p - c)
    if pa <= pb and pa <= pc:
        return a
    return b if pb <= pc else c


def png_encode(r, rows, bpp):
    out = bytearray()
    prev = [0] * (len(rows[0]) if rows else 0)
    types = []
    for row in rows:
        ft = r.randint(0, 4)
        types.append(ft)
        out.append(ft)
        for j, x in enumerate(row):
            a = row[j - bpp] if j >= bpp else 0
            b = prev[j]
            c = prev[j - bpp] if j >= bpp else 0
            pred = [0, a, b, (a + b) // 2, paeth(a, b, c)][ft]
            out.append((x - pred) % 256)
        prev = list(row)
    return bytes(out), types


def tiff_encode(rows, bpp):
    out = bytearray()
    for row in rows:
        for i, x in enumerate(row):
            out.append((x - row[i - bpp]) % 256 if i >= bpp else x)
    return bytes(out)


def gen_payload(r):
    k = r.random()
    n = r.choice([0, 1, 2, 3, 4, 5, 7, 8, 9, 16, 64, 200, 600]) if r.random() < 0.7 else r.randint(0, 300)
    if k < 0.3:
        return bytes(r.randrange(256) for _ in range(n))
    if k < 0.55:
        out = bytearray()
        while len(out) < n:
            out += bytes([r.randrange(256)]) * r.choice([1, 1, 2, 3, 5, 127, 128, 129, 300])
        return bytes(out[:n])
    if k < 0.75:
        words = [b"endstream", b"endobj", b"stream\n", b"\r\n", b"\n", b"\r", b"\x00", b"BT /F1 12 Tf (x) Tj ET", b"    ", b"\x00\x00\x00\x00"]
        out = b""
        while len(out) < n:
            out += r.choice(words)
        return out
    return bytes(r.choice(b"ab\x00\xff") for _ in range(n))


# ------------------------------------------------------------------ implementation side
def impl_call(fn, *args):
    from pdfminer.pdfexceptions import PDFValueError
    try:
        return CLs([CZ(0), CBy(fn(*args))])
    except (StopIteration, RuntimeError):
        return CLs([CZ(1)])
    except binascii.Error:
        return CLs([CZ(2)])
    except IndexError:
        return CLs([CZ(4)])
    except (ValueError, PDFValueError):
        return CLs([CZ(3)])
    except BaseException as e:  # noqa
        return CLs([CZ(50), CBy(type(e).__name__.encode())])


def damage(r, enc):
    if not enc:
        return enc
    k = r.random()
    if k < 0.5:
        return enc[:r.randint(0, len(enc) - 1)]
    if k < 0.8:
        i = r.randrange(len(enc))
        return enc[:i] + bytes([r.randrange(256)]) + enc[i + 1:]
    return bytes(r.randrange(256) for _ in range(r.randint(1, 30)))


def direct_cases(ctx, n):
    from pdfminer.runlength import rldecode
    from pdfminer.ascii85 import ascii85decode, asciihexdecode
    from pdfminer.lzw import lzwdecode
    from pdfminer.utils import apply_png_predictor, apply_tiff_predictor
    buckets = {k: ([], []) for k in ("rl", "ahx", "a85", "lzw", "png", "tiff")}

    def add(kind, family, arg_g, got, meta):
        buckets[kind][0].append((arg_g, got))
        buckets[kind][1].append((family, meta))

    ok = lambda d: CLs([CZ(0), CBy(d)])  # noqa
    for i in range(n):
        r = ctx.sub("direct", i)
        data = gen_payload(r)
        nontriv = len(data) >= 8
        # --- run length
        enc = rl_encode(r, data, eod=r.random() < 0.8)
        got = impl_call(rldecode, enc)
        ctx.case("runlength", enc, nontrivial=nontriv, sample={"payload": data[:40].hex(), "encoded": enc[:60].hex()})
        if got != ok(data):
            ctx.violation("runlength", {"decoder": "rldecode", "encoded": enc.hex()}, data.hex(), got,
                          "RunLength decoding of a conforming encoding is not the original bytes")
        add("rl", "runlength", gbytes(enc), got, enc)
        bad = damage(r, enc)
        add("rl", "runlength-damaged", gbytes(bad), impl_call(rldecode, bad), bad)
        # --- ascii hex
        enc = hex_encode(r, data)
        got = impl_call(asciihexdecode, enc)
        ctx.case("asciihex", enc, nontrivial=nontriv, sample={"payload": data[:40].hex(), "encoded": enc[:60].decode("latin-1")})
        if got != ok(data):
            ctx.violation("asciihex", {"decoder": "asciihexdecode", "encoded": enc.hex()}, data.hex(), got,
                          "ASCIIHex decoding of a conforming encoding is not the original bytes")
        add("ahx", "asciihex", gbytes(enc), got, enc)
        bad = damage(r, enc)
        add("ahx", "asciihex-damaged", gbytes(bad), impl_call(asciihexdecode, bad), bad)
        # --- ascii 85
        enc = a85_encode(r, data)
        got = impl_call(ascii85decode, enc)
        ctx.case("ascii85", enc, nontrivial=nontriv, sample={"payload": data[:40].hex(), "encoded": enc[:60].decode("latin-1")})
        if got != ok(data):
            ctx.violation("ascii85", {"decoder": "ascii85decode", "encoded": enc.hex()}, data.hex(), got,
                          "ASCII85 decoding of a conforming encoding is not the original bytes")
        add("a85", "ascii85", gbytes(enc), got, enc)
        bad = damage(r, enc)
        add("a85", "ascii85-damaged", gbytes(bad), impl_call(ascii85decode, bad), bad)
        # --- lzw
        if i % 2 == 0:
            enc = lzw_encode(r, data)
            got = impl_call(lzwdecode, enc)
            ctx.case("lzw", enc, nontrivial=nontriv, sample={"payload": data[:40].hex(), "encoded": enc[:60].hex()})
            if got != ok(data):
                ctx.violation("lzw", {"decoder": "lzwdecode", "encoded": enc.hex()}, data.hex(), got,
                              "LZW decoding of a conforming encoding is not the original bytes")
            add("lzw", "lzw", gbytes(enc), got, enc)
            bad = damage(r, enc)
            add("lzw", "lzw-damaged", gbytes(bad), impl_call(lzwdecode, bad), bad)
        # --- predictors
        colors, columns = r.randint(1, 4), r.randint(1, 9)
        bpc = 8 if r.random() < 0.8 else 1
        nb = (colors * columns * bpc + 7) // 8
        bpp = max(1, colors * bpc // 8)
        nrows = r.randint(0, 5)
        rows = [[r.choice([0, 1, 127, 128, 255, r.randrange(256)]) for _ in range(nb)] for _ in range(nrows)]
        flat = bytes(x for row in rows for x in row)
        enc, types = png_encode(r, rows, bpp)
        got = impl_call(apply_png_predictor, 15, colors, columns, bpc, enc)
        ctx.case("png", (colors, columns, bpc, enc), nontrivial=nrows >= 2,
                 sample={"colors": colors, "columns": columns, "bits": bpc, "row filters": types, "encoded": enc[:40].hex()})
        if got != ok(flat):
            ctx.violation("png", {"decoder": "apply_png_predictor", "colors": colors, "columns": columns, "bits": bpc,
                                  "encoded": enc.hex()}, flat.hex(), got,
                          "PNG predictor does not invert the per-row filters")
        add("png", "png", "(%s, %s, %s, %s)" % (gz(colors), gz(columns), gz(bpc), gbytes(enc)), got, enc)
        bad = damage(r, enc)
        c2, w2, b2 = r.choice([colors, 0, 5]), r.choice([columns, 0, 1]), r.choice([bpc, 8, 1, 4])
        add("png", "png-damaged", "(%s, %s, %s, %s)" % (gz(c2), gz(w2), gz(b2), gbytes(bad)),
            impl_call(apply_png_predictor, 12, c2, w2, b2, bad), bad)
        if bpc == 8:
            enc = tiff_encode(rows, colors)
            got = impl_call(apply_tiff_predictor, colors, columns, 8, enc)
            ctx.case("tiff", (colors, columns, enc), nontrivial=nrows >= 2,
                     sample={"colors": colors, "columns": columns, "encoded": enc[:40].hex()})
            if got != ok(flat):
                ctx.violation("tiff", {"decoder": "apply_tiff_predictor", "colors": colors, "columns": columns,
                                       "encoded": enc.hex()}, flat.hex(), got, "TIFF predictor 2 does not invert the differencing")
            add("tiff", "tiff", "(%s, %s, 8, %s)" % (gz(colors), gz(columns), gbytes(enc)), got, enc)
            bad = damage(r, enc)
            add("tiff", "tiff-damaged", "(%s, %s, %s, %s)" % (gz(c2), gz(w2), gz(b2), gbytes(bad)),
                impl_call(apply_tiff_predictor, c2, w2, b2, bad), bad)
    for kind, fn in (("rl", "run_rl"), ("ahx", "run_ahx"), ("a85", "run_a85"), ("lzw", "run_lzw"), ("png", "run_png"),
                     ("tiff", "run_tiff")):
        cases, metas = buckets[kind]
        badidx = common.coq_cases("c03" + kind, ["Model.Filters", "Model.FiltersRun"], fn, cases, shard=250)
        for i, shown in sorted(badidx.items()):
            ctx.disagree(metas[i][0], {"decoder": kind, "input": cases[i][0][:4000]}, shown, cases[i][1])


NAMES = {"rl": ["RunLengthDecode", "RL"], "ahx": ["ASCIIHexDecode", "AHx"], "a85": ["ASCII85Decode", "A85"],
         "lzw": ["LZWDecode", "LZW"], "fl": ["FlateDecode", "Fl"]}


def chain_cases(ctx, n):
    """through PDFDocument.getobj(...).get_data()"""
    from pdfminer.pdfparser import PDFParser
    from pdfminer.pdfdocument import PDFDocument
    cases, metas = [], []
    for i in range(n):
        r = ctx.sub("chain", i)
        data = gen_payload(r)
        kinds = [r.choice(["rl", "ahx", "a85", "lzw", "fl"]) for _ in range(r.randint(0, 3))]
        # predictor on one Flate/LZW stage (the innermost encoding step = last decoding stage)
        parms = [None] * len(kinds)
        enc = data
        pred = None
        if kinds and kinds[-1] in ("fl", "lzw") and r.random() < 0.5:
            colors, columns = r.randint(1, 4), r.randint(1, 9)
            nb = colors * columns
            rows_n = r.randint(0, 4)
            rows = [[r.randrange(256) for _ in range(nb)] for _ in range(rows_n)]
            data = bytes(x for row in rows for x in row)
            if r.random() < 0.5:
                enc, _ = png_encode(r, rows, colors)
                pred = (r.choice([10, 11, 12, 13, 14, 15]), colors, columns, 8)
            else:
                enc = tiff_encode(rows, colors)
                pred = (2, colors, columns, 8)
            parms[-1] = pred
        for k in reversed(kinds):
            enc = {"rl": lambda d: rl_encode(r, d), "ahx": lambda d: hex_encode(r, d), "a85": lambda d: a85_encode(r, d),
                   "lzw": lambda d: lzw_encode(r, d), "fl": zlib.compress}[k](enc)
        names = [r.choice(NAMES[k]) for k in kinds]
        objs = {1: {"Type": Name("Catalog"), "Pages": Ref(2)}, 2: {"Type": Name("Pages"), "Kids": [], "Count": 0}}
        nxt = [20]

        def ind(v):
            if r.random() < 0.4:
                nxt[0] += 1
                objs[nxt[0]] = v
                return Ref(nxt[0])
            return v
        d = {}
        if names:
            fl = [Name(x) for x in names]
            d[r.choice(["Filter", "Filter", "F"]) if False else "Filter"] = ind(fl[0] if len(fl) == 1 and r.random() < 0.5 else [ind(x) for x in fl])
            if any(p is not None for p in parms):
                pl = [None if p is None else ind({"Predictor": p[0], "Colors": p[1], "Columns": ind(p[2]), "BitsPerComponent": p[3]})
                      for p in parms]
                d["DecodeParms"] = ind(pl[0] if len(pl) == 1 and r.random() < 0.5 else pl)
        d["Length"] = ind(len(enc))
        eol = r.choice([b"\n", b"\r\n"])
        body = ser(d) + b"\nstream" + eol + enc + r.choice([b"\n", b"\r\n", b""]) + b"endstream"
        objs[10] = Raw(body)
        pdf = write_pdf(objs, 1)
        try:
            doc = PDFDocument(PDFParser(io.BytesIO(pdf)))
            got = impl_call(lambda: doc.getobj(10).get_data())
        except BaseException as e:  # noqa
            got = CLs([CZ(60), CBy(type(e).__name__.encode())])
        ctx.case("chain", pdf, nontrivial=len(kinds) >= 2 or pred is not None,
                 sample={"filters": names, "predictor": pred, "eol": eol.hex(), "payload": data[:30].hex()})
        if got != CLs([CZ(0), CBy(data)]):
            ctx.violation("chain", {"pdf": pdf.hex(), "filters": names, "predictor": pred}, data.hex(), got,
                          "stream data is not the original bytes")
        if "fl" not in kinds:
            fs = glist(["(%s, %s)" % (gbytes(nm.encode()), gopt(None if p is None else "(%s, %s, %s, %s)" % tuple(gz(x) for x in p)))
                        for nm, p in zip(names, parms)])
            cases.append(("(%s, %s)" % (fs, gbytes(enc)), got))
            metas.append((names, parms, enc))
    bad = common.coq_cases("c03chain", ["Model.Filters", "Model.FiltersRun"], "run_chain", cases, shard=200)
    for i, shown in sorted(bad.items()):
        ctx.disagree("chain", {"filters": metas[i][0], "parms": metas[i][1], "encoded": metas[i][2].hex()}, shown, cases[i][1])


def correspondence(ctx):
    direct_cases(ctx, ctx.n(300, 10000))
    chain_cases(ctx, ctx.n(300, 10000))


def oracle(ctx):
    pass


def replay(ctx, data):
    item = data.get("violation") or (data.get("correspondence_disagreements") or [None])[0]
    if not item:
        print("nothing to replay; no longer checks:", data.get("no_longer_checks"))
        return
    inp = item["input"]
    if "pdf" in inp:
        from pdfminer.pdfparser import PDFParser
        from pdfminer.pdfdocument import PDFDocument
        pdf = bytes.fromhex(inp["pdf"])
        doc = PDFDocument(PDFParser(io.BytesIO(pdf)))
        got = impl_call(lambda: doc.getobj(10).get_data())
        print("get_data():", got)
        want = CLs([CZ(0), CBy(bytes.fromhex(item["expected"]))]) if isinstance(item.get("expected"), str) else None
        if want is not None and got != want:
            ctx.violation("replay", inp, item["expected"], got, item.get("what", ""))
    elif "decoder" in inp and "encoded" in inp:
        from pdfminer.runlength import rldecode
        from pdfminer.ascii85 import ascii85decode, asciihexdecode
        from pdfminer.lzw import lzwdecode
        from pdfminer.utils import apply_png_predictor, apply_tiff_predictor
        enc = bytes.fromhex(inp["encoded"])
        fn = {"rldecode": lambda: rldecode(enc), "asciihexdecode": lambda: asciihexdecode(enc),
              "ascii85decode": lambda: ascii85decode(enc), "lzwdecode": lambda: lzwdecode(enc),
              "apply_png_predictor": lambda: apply_png_predictor(15, inp.get("colors"), inp.get("columns"), inp.get("bits", 8), enc),
              "apply_tiff_predictor": lambda: apply_tiff_predictor(inp.get("colors"), inp.get("columns"), 8, enc)}[inp["decoder"]]
        got = impl_call(fn)
        print(inp["decoder"], "->", got)
        if isinstance(item.get("expected"), str) and got != CLs([CZ(0), CBy(bytes.fromhex(item["expected"]))]):
            ctx.violation("replay", inp, item["expected"], got, item.get("what", ""))
    else:
        print("stored case:", str(item)[:1500])


if __name__ == "__main__":
    sys.exit(common.main(sys.modules[__name__]))
