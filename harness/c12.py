#!/usr/bin/env python3
"""C12 -- extraction is a pure function: deterministic, cache- and history-independent (DESIGN.md section 4, C12)."""
import hashlib
import io
import json
import os
import subprocess
import sys

sys.path.insert(0, os.path.dirname(os.path.abspath(__file__)))
import common
from pdfwriter import Name, Ref, Stream, write_pdf

PROP = "C12"
GEN = ["gen_purity"]
PROPS_FILE = "theories/Props/C12.v"
COQ_TARGETS = ["theories/Props/C12.vo"]
DRIVER = None
LEVEL = "proof"
RULE = ("a pool of generated documents that share object numbers, font resource names and base encodings but differ in "
        "Differences arrays, ToUnicode maps, predefined CMaps, encryption, inline images and layout (generators of C06, "
        "C07, C10, C11); every document observed through extract_text, extract_text_to_fp(xml) and extract_pages "
        "(page-by-page structure) (a) in a fresh interpreter process, (b) repeatedly and after random sequences of the "
        "other documents in one process, (c) with the page iterators of two or three documents interleaved, (d) with "
        "caching disabled, (e) one page at a time through page_numbers. All results must be identical to (a). "
        "Non-trivial: the history contains another document using the same font object number or base encoding.")
TRUSTED = [
    "generated from source on every run: the inventory of process-wide mutable containers and the guards "
    "copy-before-mutation in get_encoding, copying in use_cmap, caches written only under `caching` (Gen/Purity.v)",
    "modelled by hand: dictionary aliasing of get_encoding, look-up-else-compute caches, interleaved independent "
    "machines (Model/Purity.v); that the per-document computations are functions of the bytes is observed, not proved",
]
ASSUMPTIONS = ["each call of the high-level API builds its own PDFResourceManager and PDFDocument (as high_level.py does)"]
MANIFEST_ENTRY = {
    "category": "proof",
    "technique": "Coq proofs (shared encoding tables unchanged by every font history under copy-on-write, refuted without "
                 "it; cache transparency for any sound cache and any request sequence; interleaving of independent machines) "
                 "with flags and a state inventory generated from the source + differential runs over call histories "
                 "against fresh-process baselines",
    "text": "Theorems: with the copy-before-mutation that the source contains, no sequence of fonts changes a shared "
            "table (and the model without the copy is refuted); a cache that only stores computed values answers every "
            "request sequence with the computed values, caching on or off; interleaved runs of independent machines "
            "yield each machine's own sequence. Observed: identical outputs under repetition, foreign histories, "
            "interleaving, caching off and page-at-a-time extraction.",
    "note": "Trusted: Coq kernel, the AST-based generator, history harness; hidden state outside the inventory would only "
            "be seen by the harness.",
    "design_ref": "DESIGN.md section 4, C12",
}

WORKDIR = os.path.join(common.WORK, "c12")

CHILD = r'''
import sys, json, io
sys.path.insert(0, %(repo)r)
sys.path.insert(0, %(harness)r)
import c12
print(json.dumps(c12.observe(open(sys.argv[1], "rb").read(), sys.argv[2])))
'''


def page_struct(page):
    from pdfminer.layout import LTTextBox, LTTextLine, LTChar, LTFigure, LTImage, LTCurve, LTAnno

    def one(o):
        if isinstance(o, LTChar):
            return ["c", o.get_text(), [round(v, 6) for v in o.bbox], o.fontname]
        if isinstance(o, LTAnno):
            return ["a", o.get_text()]
        if isinstance(o, LTImage):
            return ["i", o.name, [round(v, 6) for v in o.bbox]]
        if isinstance(o, LTCurve):
            return [type(o).__name__, [round(v, 6) for v in o.bbox]]
        kids = [one(k) for k in o] if hasattr(o, "__iter__") else []
        return [type(o).__name__, getattr(o, "index", None) if isinstance(o, LTTextBox) else getattr(o, "name", None),
                [round(v, 6) for v in o.bbox], kids]
    return one(page)


def observe(pdf, password="", caching=True, page_numbers=None):
    """everything the high-level API reports about a document, canonical"""
    from pdfminer.high_level import extract_text, extract_pages, extract_text_to_fp
    from pdfminer.layout import LAParams
    out = {}
    try:
        out["text"] = extract_text(io.BytesIO(pdf), password=password, caching=caching, page_numbers=page_numbers)
    except BaseException as e:  # noqa
        out["text"] = "!" + type(e).__name__
    try:
        fp = io.StringIO()
        extract_text_to_fp(io.BytesIO(pdf), fp, output_type="xml", codec="", password=password, laparams=LAParams(),
                           disable_caching=not caching, page_numbers=page_numbers)
        out["xml"] = fp.getvalue()
    except BaseException as e:  # noqa
        out["xml"] = "!" + type(e).__name__
    try:
        out["pages"] = [page_struct(p) for p in extract_pages(io.BytesIO(pdf), password=password, caching=caching, page_numbers=page_numbers)]
    except BaseException as e:  # noqa
        out["pages"] = "!" + type(e).__name__
    return json.loads(json.dumps(out))


def digest(o):
    return hashlib.sha256(json.dumps(o, sort_keys=True).encode()).hexdigest()[:16]


# ------------------------------------------------------------------ the pool
def font_doc(r, variant):
    """two pages; font object 7 named /F1 with WinAnsi + Differences that differ per variant"""
    diffs = [[65, Name("B"), Name("C")], [65, Name("uni20AC"), 66, Name("f_f_i")], [], [66, Name("foo"), Name("Euro")]][variant % 4]
    enc = {"Type": Name("Encoding"), "BaseEncoding": Name(["WinAnsiEncoding", "MacRomanEncoding", "StandardEncoding"][variant % 3])}
    if diffs:
        enc["Differences"] = diffs
    objs = {1: {"Type": Name("Catalog"), "Pages": Ref(2)}, 2: {"Type": Name("Pages"), "Kids": [Ref(3), Ref(5)], "Count": 2},
            7: {"Type": Name("Font"), "Subtype": Name("Type1"), "BaseFont": Name("Helvetica"), "Encoding": enc if variant % 5 else Name("WinAnsiEncoding")},
            4: Stream({}, b"BT /F1 12 Tf 72 700 Td (ABC abc \\251) Tj 0 -14 Td (second line) Tj ET q 5 0 0 5 200 200 cm BI /W 1 /H 1 /CS /G /BPC 8 ID x\nEI Q"),
            6: Stream({}, b"BT /F1 10 Tf 72 600 Td (page two AB) Tj ET 10 10 100 50 re S")}
    for pg, cs in ((3, 4), (5, 6)):
        objs[pg] = {"Type": Name("Page"), "Parent": Ref(2), "MediaBox": [0, 0, 612, 792], "Contents": Ref(cs), "Resources": {"Font": {"F1": Ref(7)}}}
    return write_pdf(objs, 1), ""


def cid_doc(r, variant):
    enc, ordering, codec, s = [("90ms-RKSJ-H", "Japan1", "cp932", "日本語テキスト"), ("UniGB-UCS2-H", "GB1", "utf-16-be", "中文文本"),
                               ("KSCms-UHC-H", "Korea1", "cp949", "한국어"), ("Identity-H", "Identity", "utf-16-be", "AB")][variant % 4]
    data = s.encode(codec)
    objs = {1: {"Type": Name("Catalog"), "Pages": Ref(2)}, 2: {"Type": Name("Pages"), "Kids": [Ref(3)], "Count": 1},
            7: {"Type": Name("Font"), "Subtype": Name("Type0"), "BaseFont": Name("Foo"), "Encoding": Name(enc), "DescendantFonts": [Ref(8)]},
            8: {"Type": Name("Font"), "Subtype": Name("CIDFontType2"), "BaseFont": Name("Foo"),
                "CIDSystemInfo": {"Registry": b"Adobe", "Ordering": ordering.encode(), "Supplement": 0}, "DW": 1000,
                "W": [1, [500, 600]] if variant % 2 else [],
                "FontDescriptor": {"Type": Name("FontDescriptor"), "FontName": Name("Foo"), "Flags": 4, "FontBBox": [0, -200, 1000, 800], "Ascent": 800, "Descent": -200}},
            3: {"Type": Name("Page"), "Parent": Ref(2), "MediaBox": [0, 0, 612, 792], "Contents": Ref(4), "Resources": {"Font": {"F1": Ref(7)}}},
            4: Stream({}, b"BT /F1 12 Tf 72 700 Td <" + data.hex().encode() + b"> Tj ET")}
    return write_pdf(objs, 1), ""


def collection_doc(r, variant):
    """a CID font without ToUnicode whose text comes from the character collection's predefined to-Unicode map, written
    horizontally or vertically: the collection maps are process-wide and differ between the two writing modes
    (arrows, brackets, punctuation), so a cache of them must be keyed by collection AND mode"""
    ordering = ["Japan1", "Japan1", "Korea1", "Korea1", "GB1", "GB1", "CNS1", "CNS1"][variant % 8]
    vertical = variant % 2 == 1
    cids = list(range(96, 300, 3)) + list(range(630, 800, 2))
    data = b"".join(c.to_bytes(2, "big") for c in cids)
    objs = {1: {"Type": Name("Catalog"), "Pages": Ref(2)}, 2: {"Type": Name("Pages"), "Kids": [Ref(3)], "Count": 1},
            7: {"Type": Name("Font"), "Subtype": Name("Type0"), "BaseFont": Name("Foo"), "Encoding": Name("Identity-V" if vertical else "Identity-H"),
                "DescendantFonts": [Ref(8)]},
            8: {"Type": Name("Font"), "Subtype": Name("CIDFontType0"), "BaseFont": Name("Foo"),
                "CIDSystemInfo": {"Registry": b"Adobe", "Ordering": ordering.encode(), "Supplement": 0}, "DW": 1000,
                "FontDescriptor": {"Type": Name("FontDescriptor"), "FontName": Name("Foo"), "Flags": 4, "FontBBox": [0, -200, 1000, 800], "Ascent": 800, "Descent": -200}},
            3: {"Type": Name("Page"), "Parent": Ref(2), "MediaBox": [0, 0, 2000, 2000], "Contents": Ref(4), "Resources": {"Font": {"F1": Ref(7)}}},
            4: Stream({}, b"BT /F1 4 Tf 20 1900 Td <" + data.hex().encode() + b"> Tj ET")}
    return write_pdf(objs, 1), ""


def shared_descendant_doc(r, variant):
    """two Type0 fonts sharing ONE descendant CIDFont object; only the first has a ToUnicode map (or its own Encoding)"""
    tu = Stream({}, b"begincmap 1 beginbfrange <0001> <0009> <0041> endbfrange endcmap")
    objs = {1: {"Type": Name("Catalog"), "Pages": Ref(2)}, 2: {"Type": Name("Pages"), "Kids": [Ref(3), Ref(5)], "Count": 2},
            7: {"Type": Name("Font"), "Subtype": Name("Type0"), "BaseFont": Name("Foo"), "Encoding": Name("Identity-H"),
                "DescendantFonts": [Ref(8)], "ToUnicode": Ref(9)},
            10: {"Type": Name("Font"), "Subtype": Name("Type0"), "BaseFont": Name("Foo"),
                 "Encoding": Name("Identity-H" if variant % 2 == 0 else "Identity-V"), "DescendantFonts": [Ref(8)]},
            8: {"Type": Name("Font"), "Subtype": Name("CIDFontType2"), "BaseFont": Name("Foo"),
                "CIDSystemInfo": {"Registry": b"Adobe", "Ordering": b"Identity", "Supplement": 0}, "DW": 1000,
                "FontDescriptor": {"Type": Name("FontDescriptor"), "FontName": Name("Foo"), "Flags": 4, "FontBBox": [0, -200, 1000, 800],
                                   "Ascent": 800, "Descent": -200}},
            9: tu,
            4: Stream({}, b"BT /F1 12 Tf 72 700 Td <00010002> Tj ET"), 6: Stream({}, b"BT /F2 12 Tf 72 700 Td <00020003> Tj ET")}
    first, second = (7, 10) if variant < 2 else (10, 7)
    objs[3] = {"Type": Name("Page"), "Parent": Ref(2), "MediaBox": [0, 0, 612, 792], "Contents": Ref(4), "Resources": {"Font": {"F1": Ref(first)}}}
    objs[5] = {"Type": Name("Page"), "Parent": Ref(2), "MediaBox": [0, 0, 612, 792], "Contents": Ref(6), "Resources": {"Font": {"F2": Ref(second)}}}
    return write_pdf(objs, 1), ""


def same_name_doc(r, variant):
    """two (or three) pages that all call their font /F1 but mean DIFFERENT font objects (resource names are local to
    a page's resource dictionary); in odd variants one of them is a direct dictionary (no object number, never cached)"""
    def font(diffs):
        return {"Type": Name("Font"), "Subtype": Name("Type1"), "BaseFont": Name("Helvetica"),
                "Encoding": {"Type": Name("Encoding"), "BaseEncoding": Name("WinAnsiEncoding"), "Differences": diffs}}
    objs = {1: {"Type": Name("Catalog"), "Pages": Ref(2)}, 2: {"Type": Name("Pages"), "Kids": [Ref(3), Ref(5), Ref(9)], "Count": 3},
            7: font([65, Name("X"), Name("Y"), Name("Z")]), 8: font([65, Name("one"), Name("two"), Name("three")]),
            4: Stream({}, b"BT /F1 12 Tf 72 700 Td (ABC) Tj ET"), 6: Stream({}, b"BT /F1 12 Tf 72 700 Td (ABC) Tj ET"),
            10: Stream({}, b"BT /F1 12 Tf 72 700 Td (CBA) Tj ET")}
    third = font([65, Name("a"), Name("b"), Name("c")]) if variant % 2 else Ref(7)
    order = [(3, 4, Ref(7)), (5, 6, Ref(8)), (9, 10, third)]
    if variant >= 2:
        order = [(3, 4, Ref(8)), (5, 6, third), (9, 10, Ref(7))]
    for pg, cs, f in order:
        objs[pg] = {"Type": Name("Page"), "Parent": Ref(2), "MediaBox": [0, 0, 612, 792], "Contents": Ref(cs), "Resources": {"Font": {"F1": f}}}
    return write_pdf(objs, 1), ""


def make_pool(ctx, k):
    import c10
    import c11
    pool = []
    for v in range(6):
        pool.append(("font%d" % v,) + font_doc(ctx.sub("pool", k, "font", v), v))
    for v in range(4):
        pool.append(("cid%d" % v,) + cid_doc(ctx.sub("pool", k, "cid", v), v))
    for v in range(8):
        pool.append(("collection%d" % v,) + collection_doc(ctx.sub("pool", k, "collection", v), v))
    for v in range(4):
        pool.append(("shared%d" % v,) + shared_descendant_doc(ctx.sub("pool", k, "shared", v), v))
    for v in range(4):
        pool.append(("samename%d" % v,) + same_name_doc(ctx.sub("pool", k, "samename", v), v))
    for v in range(3):
        pdf, _, _ = c11.gen_doc(ctx.sub("pool", k, "c11", v))
        pool.append(("mixed%d" % v, pdf, ""))
    for v in range(2):
        r = ctx.sub("pool", k, "enc", v)
        d = c10.gen_doc(r, c10.CONFIGS[[3, 5][v]], v)
        pool.append(("crypt%d" % v, c10.build(d, ctx.sub("pool", k, "encw", v), True), d["user"]))
    return pool


def fresh_baseline(pool):
    os.makedirs(WORKDIR, exist_ok=True)
    script = os.path.join(WORKDIR, "child.py")
    open(script, "w").write(CHILD % {"repo": common.REPO, "harness": os.path.dirname(os.path.abspath(__file__))})
    base = {}
    procs = []
    for name, pdf, pw in pool:
        path = os.path.join(WORKDIR, name + ".pdf")
        open(path, "wb").write(pdf)
        procs.append((name, subprocess.Popen(["/venv/bin/python", script, path, pw], stdout=subprocess.PIPE, stderr=subprocess.DEVNULL,
                                             env=dict(os.environ, PYTHONHASHSEED=str(len(procs) % 3 + 1)))))
    for name, p in procs:
        out, _ = p.communicate(timeout=300)
        base[name] = json.loads(out.decode() or "null")
    return base


def histories(ctx, nrounds):
    from pdfminer.high_level import extract_pages
    for k in range(nrounds):
        pool = make_pool(ctx, k)
        base = fresh_baseline(pool)
        docs = {name: (pdf, pw) for name, pdf, pw in pool}

        def check(kind, name, got, history):
            want = base[name]
            ctx.case(kind, (k, name, tuple(history[-6:])), nontrivial=len(set(h.rstrip("0123456789") for h in history)) > 1 or len(history) > 1,
                     sample={"doc": name, "history": history[-5:], "text": (got.get("text") or "")[:40]})
            if want is None:
                ctx.violation(kind, {"doc": name, "pdf": docs[name][0].hex()}, "a baseline", None, "fresh-process extraction produced nothing")
                return
            for key in ("text", "xml", "pages"):
                if got.get(key) != want.get(key):
                    ctx.violation(kind, {"doc": name, "history": history, "what": key, "pdf": docs[name][0].hex(),
                                         "others": {h: docs[h][0].hex() for h in set(history) if h != name and h in docs}},
                                  str(want.get(key))[:300], str(got.get(key))[:300],
                                  "result of extraction depends on the call history (%s differs from a fresh process)" % key)
                    return
        # (b) repetition and foreign histories
        r = ctx.sub("hist", k)
        seq = [r.choice(pool)[0] for _ in range(3 * len(pool))]
        hist = []
        for name in seq:
            hist.append(name)
            check("history", name, observe(docs[name][0], docs[name][1]), list(hist))
        # (d) caching off
        for name in docs:
            check("nocache", name, observe(docs[name][0], docs[name][1], caching=False), hist + ["nocache:" + name])
        # (c) interleaved page iterators
        for _ in range(6):
            names = r.sample(sorted(docs), r.choice([2, 3]))
            its = {n: extract_pages(io.BytesIO(docs[n][0]), password=docs[n][1]) for n in names}
            got = {n: [] for n in names}
            live = list(names)
            while live:
                n = r.choice(live)
                try:
                    got[n].append(page_struct(next(its[n])))
                except StopIteration:
                    live.remove(n)
                except BaseException as e:  # noqa
                    got[n] = "!" + type(e).__name__
                    live.remove(n)
            for n in names:
                want = base[n]["pages"] if base[n] else None
                ctx.case("interleave", (k, tuple(names), n), nontrivial=True)
                if json.loads(json.dumps(got[n])) != want:
                    ctx.violation("interleave", {"doc": n, "with": names, "pdf": docs[n][0].hex()}, str(want)[:300], str(got[n])[:300],
                                  "interleaving the page iterators of several documents changes a document's pages")
        # (e) one page at a time
        for name in docs:
            want = base[name]
            if not want or not isinstance(want["pages"], list) or len(want["pages"]) < 2:
                continue
            pages = []
            for pn in range(len(want["pages"])):
                o = observe(docs[name][0], docs[name][1], page_numbers=[pn])
                pages += o["pages"] if isinstance(o["pages"], list) else [o["pages"]]
            ctx.case("pagewise", (k, name), nontrivial=True)

            def norm(p):                      # the page id counts processed pages: compare everything else
                return p[2:] if isinstance(p, list) else p
            if [norm(p) for p in pages] != [norm(p) for p in want["pages"]]:
                ctx.violation("pagewise", {"doc": name, "pdf": docs[name][0].hex()}, str(want["pages"])[:300], str(pages)[:300],
                              "extracting pages one at a time differs from extracting them together")


def correspondence(ctx):
    histories(ctx, ctx.n(2, 20))


def oracle(ctx):
    pass


def known_match(finding, item):
    return False


def confirm_known(ctx, finding):
    return False


def replay(ctx, data):
    item = data.get("violation") or (data.get("correspondence_disagreements") or [None])[0]
    print("replay: re-run ./check C12; stored case:", str(item)[:1500])


if __name__ == "__main__":
    sys.exit(common.main(sys.modules[__name__]))
