#!/usr/bin/env python3
"""C02 -- cross-reference resolution: newest definition wins, in every physical form (DESIGN.md section 4, C02)."""
import io
import os
import sys

sys.path.insert(0, os.path.dirname(os.path.abspath(__file__)))
import common
from common import CZ, CBy, CLs, gz, glist, gnat, gbytes
from pdfwriter import Name, Ref, Stream, write_history, write_pdf

PROP = "C02"
GEN = []
PROPS_FILE = "theories/Props/C02.v"
COQ_TARGETS = ["theories/Props/C02.vo", "theories/Model/XrefRun.vo"]
DRIVER = None
LEVEL = "proof"
RULE = ("revision histories (1-5 revisions, 3-25 objects, random define/override sets) written in every assignment of "
        "{table, stream, hybrid} per revision with 0-2 object streams, three EOL styles, random /W widths and /Index "
        "partitions; PDFDocument.getobj for every object number, xref.get_objids() per section, catalog/info, with caching "
        "on/off, compared across physical forms, with the generator's history (oracle) and with Model/Xref.v getobj over "
        "the layout; xref-stream get_pos/get_objids, classic table loading, nextline and revreadlines/find_xref at "
        "BUFSIZ 1..7,16,64,4096 vs the model; damaged startxref / table on single-revision classic files. Non-trivial: "
        ">=2 revisions with an override or a compressed object; distinct = distinct file bytes.")
TRUSTED = [
    "modelled by hand: PDFXRefStream.get_pos/get_objids, PDFXRef.load (on lines), the xrefs chain and getobj, "
    "_getobj_objstm indexing, nextline, revreadlines, find_xref (Model/Xref.v), tied by correspondence; byte-level object "
    "parsing is C01's, stream payloads C03's, decryption C10's",
    "Python int() on table fields is modelled for plain digit strings only",
]
ASSUMPTIONS = ["revisions only define or override objects (a freed object is still found in an older revision: pdfminer skips "
               "free entries)", "settings.STRICT is False"]
MANIFEST_ENTRY = {
    "category": "proof",
    "technique": "Coq proofs: big-endian field decoding of cross-reference streams for all widths / Index partitions, the "
                 "line readers' independence of buffer boundaries (nextline = spec, revreadlines = backward line spec for every "
                 "BUFSIZ), first-answering-section lookup = newest definition; differential runs on generated revision "
                 "histories in all physical forms",
    "text": "Theorems: for every W=(w1,w2,w3) and every partition of the entries into /Index ranges get_pos returns the stored "
            "entry (type 1 default when w1=0) and get_objids exactly the in-use ids; nextline over ANY chunking of the file "
            "returns the line of the specification; revreadlines (hence find_xref) yields the same lines for every BUFSIZ>0; "
            "the section chain returns the entry of the newest section defining the object. The correspondence between "
            "sections and the bytes of real files (table text, xref stream objects, object streams) is covered by differential "
            "runs on generated histories and cross-form comparison.",
    "note": "Trusted: Coq kernel, hand models tied by differential runs, harness PDF history writer. Fix 41df6ae "
            "(get_objids across /Index ranges) was needed. Object parsing at an offset is abstracted as a content map.",
    "design_ref": "DESIGN.md section 4, C02",
}

SIZES = [1, 2, 3, 4, 5, 6, 7, 16, 64, 4096]


def with_bufsiz(b, fn):
    from pdfminer.psparser import PSBaseParser
    old = PSBaseParser.BUFSIZ
    PSBaseParser.BUFSIZ = b
    try:
        return fn()
    finally:
        PSBaseParser.BUFSIZ = old


# ------------------------------------------------------------------ unit level: xref stream fields
def xrefstm_cases(ctx, n):
    from pdfminer.pdfdocument import PDFXRefStream
    cases, metas = [], []
    for i in range(n):
        r = ctx.sub("xrefstm", i)
        w1, w2, w3 = r.choice([0, 1, 1, 2]), r.randint(0, 4), r.randint(0, 3)
        nranges = r.randint(1, 4)
        ranges, start = [], r.randint(0, 5)
        entries = []
        for _ in range(nranges):
            cnt = r.randint(0, 5)
            ranges.append((start, cnt))
            for _ in range(cnt):
                t = r.choice([0, 1, 1, 2, 3]) if w1 else 1
                entries.append((t, r.randrange(256 ** w2) if w2 else 0, r.randrange(256 ** w3) if w3 else 0))
            start += cnt + r.choice([0, 0, 1, 3, -1])            # occasionally overlapping / adjacent
            start = max(0, start)
        data = b"".join((t.to_bytes(w1, "big") if w1 else b"") + a.to_bytes(w2, "big") + b.to_bytes(w3, "big") for t, a, b in entries)
        if r.random() < 0.15 and data:
            data = data[:r.randint(0, len(data) - 1)]            # truncated stream data
        x = PDFXRefStream()
        x.ranges, x.fl1, x.fl2, x.fl3, x.data, x.entlen = list(ranges), w1, w2, w3, data, w1 + w2 + w3
        probes = sorted({n for s, c in ranges for n in range(s, s + c)} | {0, 1, 99})
        got = []
        for nn in probes:
            try:
                p = x.get_pos(nn)
                got.append(CLs([CZ(0), CZ(p[1]), CZ(p[2])]) if p[0] is None else CLs([CZ(1), CZ(p[0]), CZ(p[1])]))
            except KeyError:
                got.append(CLs([]))
        ids = list(x.get_objids())
        ctx.case("xrefstm", (tuple(ranges), w1, w2, w3, data), nontrivial=len(ranges) >= 2 and len(entries) >= 3,
                 sample={"ranges": ranges, "W": [w1, w2, w3], "data": data.hex(), "objids": ids})
        # oracle: entries as written (when nothing was truncated and ranges do not overlap)
        flat = [(s + k) for s, c in ranges for k in range(c)]
        if len(data) == len(entries) * (w1 + w2 + w3) and len(set(flat)) == len(flat) and (w1 + w2 + w3) > 0:
            want_ids = [nn for nn, e in zip(flat, entries) if e[0] in (1, 2)]
            if ids != want_ids:
                ctx.violation("xrefstm", {"ranges": ranges, "W": [w1, w2, w3], "data": data.hex()}, want_ids, ids,
                              "get_objids() is not exactly the in-use object numbers of the cross-reference stream")
            for nn, e in zip(flat, entries):
                try:
                    p = x.get_pos(nn)
                    obs = (1, p[1], p[2]) if p[0] is None else (2, p[0], p[1])
                except KeyError:
                    obs = None
                want = e if e[0] in (1, 2) else None
                if obs != want:
                    ctx.violation("xrefstm", {"ranges": ranges, "W": [w1, w2, w3], "data": data.hex(), "objid": nn},
                                  want, obs, "get_pos() is not the stored entry")
                    break
        cases.append(("(%s, %s, %s, %s, %s, %s)" % (glist(["(%s, %s)" % (gz(a), gz(b)) for a, b in ranges]), gz(w1), gz(w2),
                                                  gz(w3), gbytes(data), glist([gz(p) for p in probes])),
                      CLs([CLs(got), CLs([CZ(v) for v in ids])])))
        metas.append((ranges, (w1, w2, w3), data))
    bad = common.coq_cases("c02x", ["Model.Xref", "Model.XrefRun"], "run_xrefstm", cases, shard=300)
    for i, shown in sorted(bad.items()):
        ctx.disagree("xrefstm", {"ranges": metas[i][0], "W": metas[i][1], "data": metas[i][2].hex()}, shown, cases[i][1])


# ------------------------------------------------------------------ unit level: line readers
def gen_text(r):
    k = r.random()
    n = r.randint(0, 60)
    if k < 0.6:
        return bytes(r.choice(b"ab \r\n\r\n0") for _ in range(n))
    tail = r.choice([b"startxref\n123\n%%EOF\n", b"startxref\r\n4567\r\n%%EOF\r\n", b"startxref\r89\r%%EOF", b"startxref 12\n",
                     b"startxref\n\n77\n%%EOF", b"startxref\nabc\n", b" startxref \n 5 \n", b"startxref\n12", b"12\nstartxref\n"])
    return bytes(r.choice(b"ab \r\n") for _ in range(n)) + tail


def lines_cases(ctx, n):
    from pdfminer.psparser import PSBaseParser, PSEOF
    from pdfminer.pdfdocument import PDFDocument, PDFNoValidXRef
    from pdfminer.pdfparser import PDFParser
    nl, rl, fx = [], [], []
    metas = []
    for i in range(n):
        r = ctx.sub("lines", i)
        data = gen_text(r)
        ref_n = ref_r = ref_f = None
        for b in [r.choice([1, 2, 3]), r.choice([4, 5, 6, 7]), r.choice([16, 64, 4096])]:
            def run_next():
                p = PSBaseParser(io.BytesIO(data))
                out = []
                try:
                    for _ in range(len(data) + 2):
                        out.append(p.nextline())
                except PSEOF:
                    pass
                return out

            def run_rev():
                return list(PSBaseParser(io.BytesIO(data)).revreadlines())

            def run_fx():
                doc = PDFDocument.__new__(PDFDocument)
                try:
                    return doc.find_xref(PDFParser(io.BytesIO(data)))
                except PDFNoValidXRef:
                    return None
            gn = with_bufsiz(b, run_next)
            gr = with_bufsiz(b, run_rev)
            gf = with_bufsiz(b, run_fx)
            # oracle: identical for every buffer size; nextline positions consistent
            if ref_n is None:
                ref_n, ref_r, ref_f = gn, gr, gf
            elif (gn, gr, gf) != (ref_n, ref_r, ref_f):
                ctx.violation("lines", {"data": data.hex(), "bufsiz": b}, [str(ref_n), str(ref_r), ref_f],
                              [str(gn), str(gr), gf], "line reading / find_xref depends on the read-buffer size")
            pos = 0
            for p_, l_ in gn:
                if p_ != pos:
                    ctx.violation("lines", {"data": data.hex(), "bufsiz": b}, pos, p_, "nextline position is not contiguous")
                    break
                pos += len(l_)
            ctx.case("lines", (data, b), nontrivial=b"\r" in data or b"\n" in data,
                     sample={"data": data.decode("latin-1"), "bufsiz": b, "find_xref": gf})
            nl.append(("(%s, %s)" % (gnat(b), gbytes(data)), CLs([CBy(l) for _, l in gn])))
            rl.append(("(%s, %s)" % (gnat(b), gbytes(data)), CLs([CBy(l) for l in gr])))
            fx.append(("(%s, %s)" % (gnat(b), gbytes(data)), CLs([]) if gf is None else CLs([CZ(gf)])))
            metas.append((data, b))
    for tag, fn, cs in (("c02n", "run_nextlines", nl), ("c02r", "run_revlines", rl), ("c02f", "run_find_xref", fx)):
        bad = common.coq_cases(tag, ["Model.Xref", "Model.XrefRun"], fn, cs, shard=400)
        for i, shown in sorted(bad.items()):
            ctx.disagree(fn, {"data": metas[i][0].hex(), "bufsiz": metas[i][1]}, shown, cs[i][1])


# ------------------------------------------------------------------ unit level: classic table
def table_cases(ctx, n):
    from pdfminer.pdfdocument import PDFXRef, PDFNoValidXRef
    from pdfminer.pdfparser import PDFParser
    from pdfminer.psparser import PSBaseParser, PSEOF
    cases, metas = [], []
    for i in range(n):
        r = ctx.sub("table", i)
        eol = r.choice([b"\n", b"\r\n", b"\r"])
        ent_eol = {b"\n": b" \n", b"\r": b" \r", b"\r\n": b"\r\n"}[eol]
        txt = b""
        want = {}
        start = r.randint(0, 3)
        for _ in range(r.randint(1, 3)):
            cnt = r.randint(0, 4)
            txt += b"%d %d" % (start, cnt) + eol
            for k in range(cnt):
                if r.random() < 0.25:
                    txt += b"%010d %05d f" % (r.randint(0, 99), 65535) + ent_eol
                else:
                    p, g = r.randint(0, 10 ** 6), r.choice([0, 0, 1, 65535])
                    txt += b"%010d %05d n" % (p, g) + ent_eol
                    want[start + k] = (p, g)
            start += cnt + r.choice([0, 1, 5])
        damaged = r.random() < 0.25
        if damaged:
            k = r.random()
            if k < 0.4 and txt:
                j = r.randrange(len(txt))
                txt = txt[:j] + r.choice([b"x", b" ", b"\n", b""]) + txt[j + 1:]
            elif k < 0.7:
                txt = txt.replace(b" n", b"  n", 1)
            else:
                txt = txt[:r.randint(0, len(txt))]
        body = txt + b"trailer" + eol + b"<< /Size 10 >>" + eol
        x = PDFXRef()
        try:
            x.load(PDFParser(io.BytesIO(body)))
            got = CLs([CZ(0), CLs([CLs([CZ(k), CZ(v[1]), CZ(v[2])]) for k, v in x.offsets.items()])])
            obs = {k: (v[1], v[2]) for k, v in x.offsets.items()}
        except PDFNoValidXRef:
            got, obs = CLs([CZ(1)]), None
        except BaseException as e:  # noqa
            got, obs = CLs([CZ(50), CBy(type(e).__name__.encode())]), None
        if not damaged and obs != want:
            ctx.violation("table", {"text": body.hex()}, want, obs, "classic cross-reference table is not read back as written")
        ctx.case("table" if not damaged else "table-damaged", body, nontrivial=len(want) >= 2,
                 sample={"text": body.decode("latin-1"), "offsets": obs})
        # the model works on the lines nextline yields
        p = PSBaseParser(io.BytesIO(body))
        lines = []
        try:
            for _ in range(len(body) + 2):
                lines.append(p.nextline()[1])
        except PSEOF:
            pass
        cases.append((glist([gbytes(l) for l in lines]), got))
        metas.append(body)
    # every differing case is rendered: the model's "declined" answer [2] must be told apart from a disagreement
    # (with the default of 8 rendered cases per shard the ninth declined case of a shard was reported as a disagreement
    # in the thorough tier -- a false alarm of the harness)
    bad = common.coq_cases("c02t", ["Model.Xref", "Model.XrefRun"], "run_table", cases, shard=300, show_max=300)
    for i, shown in sorted(bad.items()):
        if "[2]" == shown.strip():
            continue                        # the model declines (non-digit field): not a disagreement
        ctx.disagree("table", {"text": metas[i].hex()}, shown, cases[i][1])


# ------------------------------------------------------------------ whole documents
def gen_history(r):
    nrev = r.randint(1, 5)
    nobj = r.randint(3, 25)
    ids = list(range(3, 3 + nobj))
    revs = []
    vid = [0]

    def val():
        vid[0] += 1
        k = r.random()
        if k < 0.6:
            return {"V": vid[0]}
        if k < 0.8:
            return [vid[0], b"s", Name("N")]
        if k < 0.9:
            return vid[0]
        return Stream({"V": vid[0]}, b"data%d" % vid[0])
    first = {n: val() for n in ids if r.random() < 0.8}
    first[1] = {"Type": Name("Catalog"), "Pages": Ref(2), "V": 0}
    first[2] = {"Type": Name("Pages"), "Kids": [], "Count": 0}
    revs.append(first)
    for k in range(1, nrev):
        d = {n: val() for n in ids if r.random() < 0.25}
        if r.random() < 0.3:
            vid[0] += 1
            d[1] = {"Type": Name("Catalog"), "Pages": Ref(2), "V": vid[0]}
        if not d:
            d[ids[0]] = val()
        revs.append(d)
    return revs


def value_id(o):
    from pdfminer.pdftypes import PDFStream
    if isinstance(o, PDFStream):
        return ("stm", o.attrs.get("V"), o.get_data())
    if isinstance(o, dict):
        return ("dict", o.get("V"))
    if isinstance(o, list):
        return ("list", o[0] if o else None)
    return ("int", o)


def spec_id(v):
    if isinstance(v, Stream):
        return ("stm", v.d.get("V"), v.data)
    if isinstance(v, dict):
        return ("dict", v.get("V"))
    if isinstance(v, list):
        return ("list", v[0])
    return ("int", v)


def observe(data, caching, probes):
    from pdfminer.pdfparser import PDFParser
    from pdfminer.pdfdocument import PDFDocument
    from pdfminer.pdfexceptions import PDFObjectNotFound
    doc = PDFDocument(PDFParser(io.BytesIO(data)), caching=caching)
    out = {}
    for n in probes:
        try:
            out[n] = value_id(doc.getobj(n))
        except PDFObjectNotFound:
            out[n] = None
    # second pass (cache hits when caching)
    for n in probes:
        try:
            again = value_id(doc.getobj(n))
        except PDFObjectNotFound:
            again = None
        if again != out[n]:
            out[n] = ("unstable", out[n], again)
    ids = [sorted(x.get_objids()) for x in doc.xrefs]
    return out, ids, doc.catalog.get("V"), doc


def history_cases(ctx, n):
    cases, metas = [], []
    for i in range(n):
        r = ctx.sub("history", i)
        revs = gen_history(r)
        allids = sorted({k for d in revs for k in d})
        newest = {}
        for d in revs:
            newest.update(d)
        want = {k: spec_id(v) for k, v in newest.items()}
        probes = allids + [max(allids) + 1, max(allids) + 7]
        want_cat = newest[1]["V"]
        ref_obs = None
        forms_list = [[r.choice(["table", "stream", "hybrid"]) for _ in revs] for _ in range(2)] + [["table"] * len(revs)]
        for forms in forms_list:
            eol = r.choice([b"\n", b"\r\n", b"\r"]) if "stream" not in forms and "hybrid" not in forms else r.choice([b"\n", b"\r\n"])
            spec = []
            for d, f in zip(revs, forms):
                packed = {k for k in d if k > 2 and r.random() < 0.5} if f != "table" else set()
                spec.append({"defs": dict(d), "form": f, "packed": packed, "eol": eol, "root": 1})
            wr = r.__class__(r.random())
            data, layout, content = write_history(spec, wr)
            caching = r.random() < 0.5
            try:
                got, ids, cat, doc = with_bufsiz(r.choice([16, 64, 4096]), lambda: observe(data, caching, probes))
            except BaseException as e:  # noqa
                ctx.violation("history", {"pdf": data.hex(), "forms": forms}, "document opens", repr(e)[:300],
                              "opening a well-formed revision history raised %s" % type(e).__name__)
                continue
            ctx.case("history", data, nontrivial=len(revs) >= 2,
                     sample={"forms": forms, "revisions": len(revs), "objects": len(allids), "caching": caching,
                             "objids per section": ids[:3]})
            obs = {k: got[k] for k in allids}
            if obs != want or any(got[p] is not None for p in probes[-2:]):
                bad = [k for k in allids if obs[k] != want[k]]
                ctx.violation("history", {"pdf": data.hex(), "forms": forms, "caching": caching, "objid": bad[:1]},
                              {str(k): str(want[k]) for k in bad[:3]}, {str(k): str(obs[k]) for k in bad[:3]},
                              "getobj does not return the newest definition")
            if cat != want_cat:
                ctx.violation("history", {"pdf": data.hex(), "forms": forms}, want_cat, cat, "catalog is not the newest revision's")
            # in-use ids per section = exactly those the section defines
            want_ids = []
            for sec in layout:
                want_ids.append(sorted(sec[1]) if sec[0] == "table" else sorted(sec[4]))
            if ids != want_ids:
                ctx.violation("history", {"pdf": data.hex(), "forms": forms}, want_ids, ids,
                              "get_objids() per cross-reference section is not exactly the defined object numbers")
            # model: getobj over the layout
            secs = []
            for sec in layout:
                if sec[0] == "table":
                    secs.append("(STable %s)" % glist(["(%s, (%s, %s))" % (gz(k), gz(p), gz(g)) for k, (p, g) in sorted(sec[1].items())]))
                else:
                    secs.append("(SStream (mkXS %s %s %s %s %s))" % (
                        glist(["(%s, %s)" % (gz(a), gz(b)) for a, b in sec[1]]), gz(sec[2][0]), gz(sec[2][1]), gz(sec[2][2]),
                        gbytes(sec[3])))
            cont = []
            vmap = {}

            def vnum(v):
                key = repr(spec_id(v))
                return vmap.setdefault(key, len(vmap) + 1)
            stm_info = {}
            for sp in spec:
                stm_info.update(sp.get("_stms", {}))
            for pos, (oid, v) in sorted(content.items()):
                if oid in stm_info:
                    nn, hdr, members = stm_info[oid]
                    cont.append("(%s, (%s, OStm %s %s))" % (gz(pos), gz(oid), gz(nn), glist([gz(x) for x in hdr] + [gz(vnum(m)) for m in members])))
                else:
                    cont.append("(%s, (%s, OPlain %s))" % (gz(pos), gz(oid), gz(vnum(v))))
            exp = []
            for p in probes:
                g = got[p]
                if g is None:
                    exp.append(CLs([CZ(2)]))
                else:
                    exp.append(CLs([CZ(0), CZ(vmap.get(repr(g), 0))]))
            cases.append(("(%s, %s, %s)" % (glist(secs), glist(cont), glist([gz(p) for p in probes])), CLs(exp)))
            metas.append((data, forms))
            if ref_obs is None:
                ref_obs = obs
            elif obs != ref_obs:
                ctx.violation("history", {"pdf": data.hex(), "forms": forms}, str(ref_obs)[:300], str(obs)[:300],
                              "answers differ between physical forms of the same history")
    bad = common.coq_cases("c02h", ["Model.Xref", "Model.XrefRun"], "run_getobj", cases, shard=100)
    for i, shown in sorted(bad.items()):
        ctx.disagree("history", {"pdf": metas[i][0].hex(), "forms": metas[i][1]}, shown, cases[i][1])


def damage_cases(ctx, n):
    """single-revision classic-table files with a damaged startxref offset or table: same objects by scanning"""
    for i in range(n):
        r = ctx.sub("damage", i)
        revs = gen_history(r)[:1]
        d = {k: v for k, v in revs[0].items() if not isinstance(v, Stream)}
        data, layout, content = write_history([{"defs": d, "form": "table", "eol": r.choice([b"\n", b"\r\n"]), "root": 1}],
                                              r.__class__(r.random()))
        want = {k: spec_id(v) for k, v in d.items()}
        k = r.random()
        j = data.rindex(b"startxref")
        if k < 0.4:
            num_at = j + len(b"startxref") + 1
            bad = data[:num_at] + b"%d" % (int(data[num_at:].split()[0]) + r.choice([-7, 3, 100000])) + b"\n%%EOF\n"
        elif k < 0.7:
            bad = data[:j] + b"startxref\nabc\n%%EOF\n"
        else:
            t = data.rindex(b"xref", 0, j)
            bad = data[:t] + b"xrxf" + data[t + 4:]
        try:
            got, ids, cat, doc = observe(bad, True, sorted(d))
        except BaseException as e:  # noqa
            ctx.violation("damage", {"pdf": bad.hex()}, "objects found by scanning", repr(e)[:300],
                          "damaged cross-reference data: opening raised %s" % type(e).__name__)
            continue
        ctx.case("damage", bad, nontrivial=True, sample={"damage": ["offset", "garbage", "table"][0 if k < 0.4 else 1 if k < 0.7 else 2]})
        if got != want:
            badk = [x for x in d if got.get(x) != want[x]]
            ctx.violation("damage", {"pdf": bad.hex(), "objid": badk[:1]}, {str(x): str(want[x]) for x in badk[:3]},
                          {str(x): str(got.get(x)) for x in badk[:3]}, "scanning the body does not find every object")


def correspondence(ctx):
    xrefstm_cases(ctx, ctx.n(300, 8000))
    lines_cases(ctx, ctx.n(200, 5000))
    table_cases(ctx, ctx.n(200, 5000))
    history_cases(ctx, ctx.n(60, 2000))
    damage_cases(ctx, ctx.n(40, 1500))


def oracle(ctx):
    pass


def replay(ctx, data):
    item = data.get("violation") or (data.get("correspondence_disagreements") or [None])[0]
    if not item:
        print("nothing to replay; no longer checks:", data.get("no_longer_checks"))
        return
    inp = item["input"]
    if "pdf" in inp:
        raw = bytes.fromhex(inp["pdf"])
        from pdfminer.pdfparser import PDFParser
        from pdfminer.pdfdocument import PDFDocument
        doc = PDFDocument(PDFParser(io.BytesIO(raw)), caching=inp.get("caching", True))
        for x in doc.xrefs:
            print(type(x).__name__, sorted(x.get_objids()))
        for n in inp.get("objid", []) or []:
            try:
                print("getobj", n, value_id(doc.getobj(n)))
            except BaseException as e:  # noqa
                print("getobj", n, repr(e))
        print("expected:", item.get("expected"), "observed at check time:", item.get("observed"))
        if item.get("kind") == "property":
            ctx.violation("replay", inp, item.get("expected"), item.get("observed"), item.get("what", "") + " (re-run ./check C02 to re-evaluate)")
    else:
        print("stored case:", str(item)[:2000])


if __name__ == "__main__":
    sys.exit(common.main(sys.modules[__name__]))
