#!/usr/bin/env python3
"""C18 -- images: exported files and inline image data reproduce the samples exactly (DESIGN.md section 4, C18)."""
import io
import os
import shutil
import struct
import sys
import zlib

sys.path.insert(0, os.path.dirname(os.path.abspath(__file__)))
import common
from common import CZ, CBy, CLs, gz, glist, gbytes
from pdfwriter import Name, Ref, Stream, write_pdf
import c03

PROP = "C18"
GEN = []
PROPS_FILE = "theories/Props/C18.v"
COQ_TARGETS = ["theories/Props/C18.vo", "theories/Model/ImagesRun.vo"]
DRIVER = None
LEVEL = "proof"
RULE = ("inline images exported with ImageWriter under every spelling of their dictionary (abbreviated/full keys and colour space names); documents with image XObjects and inline images: 8-bit gray, 8-bit RGB and 1-bit samples, widths and heights "
        "1..24 (every row length modulo 4), stored unfiltered, through Flate, LZW, ASCII85, ASCIIHex, RunLength and chains "
        "of them, or as DCT data (arbitrary bytes behind a JPEG header); several images per page, equal resource names on "
        "different pages, pre-existing files in the output directory; exported through extract_text_to_fp(output_dir=...) "
        "and read back by the harness's own BMP decoder; file bytes compared with Model/Images.v in Coq; inline image data "
        "over random bytes (incl. E, I, white space, EI without white space, trailing CR) followed by text operators, "
        "observed through LTImage.stream and the glyphs shown afterwards, and through PDFContentParser.get_inline_data "
        "against the model. Non-trivial: width not a multiple of 4 bytes / filter chain / data containing E or I.")
TRUSTED = [
    "modelled by hand: BMPWriter, ImageWriter.export_image's format choice, _save_bmp, _create_unique_image_name, "
    "PDFContentParser.get_inline_data (Model/Images.v); the BMP decoder bmp_read is the specification-side reader",
    "filter decoding is C03's; JPEG/JPEG2000/JBIG2 re-encoding through Pillow is not available in this environment and not "
    "claimed; the filesystem is observed through os.listdir and file contents",
]
ASSUMPTIONS = ["inline image data is followed by an end-of-line and EI, as writers emit it"]
MANIFEST_ENTRY = {
    "category": "proof",
    "technique": "Coq proofs (little-endian field read-back, row padding and BGR swap inverted, whole-file BMP round trip "
                 "through a reader written from the format for every geometry < 32768; fresh-name theorem; the inline-image "
                 "scanner as a 3-state machine with a marker-freedom invariant) + differential runs on exported files and "
                 "inline data",
    "text": "Theorems: bmp_read(bmp_file(bits,w,h,data)) returns w, h, bits and exactly the rows of data for 1-, 8- and "
            "24-bit images of every size below 32768; a chosen file name is never an existing one and successive names "
            "differ; inline image data in which EI+white space does not occur is captured completely (one end-of-line "
            "sequence removed) and the scan resumes right after the terminator. Refuted and recorded: data ending in CR "
            "loses that byte when the separator is LF.",
    "note": "Trusted: Coq kernel, hand model tied by differential runs, the harness BMP decoder.",
    "design_ref": "DESIGN.md section 4, C18",
}

WORK = os.path.join(common.WORK, "c18")


def fresh_dir(tag):
    d = os.path.join(WORK, tag)
    shutil.rmtree(d, ignore_errors=True)
    os.makedirs(d)
    return d


# ------------------------------------------------------------------ an independent BMP decoder
def read_bmp(b):
    if b[:2] != b"BM":
        raise ValueError("no BM signature")
    size, _, _, off = struct.unpack("<IHHI", b[2:14])
    hsize, w, h, planes, bits, comp, dsize = struct.unpack("<IiiHHII", b[14:38])
    if size != len(b):
        raise ValueError("file size %d, header says %d" % (len(b), size))
    if hsize != 40 or planes != 1 or comp != 0:
        raise ValueError("unsupported header")
    ncol = struct.unpack("<I", b[46:50])[0]
    pal = [tuple(b[54 + 4 * k:54 + 4 * k + 3]) for k in range(ncol)]
    ls = ((w * bits + 31) // 32) * 4
    rows = []
    for y in range(h):
        row = b[off + (h - 1 - y) * ls: off + (h - y) * ls]
        if len(row) != ls:
            raise ValueError("truncated pixel data")
        px = []
        for x in range(w):
            if bits == 24:
                bl, g, r = row[3 * x:3 * x + 3]
                px.append((r, g, bl))
            elif bits == 8:
                px.append(pal[row[x]][::-1])
            elif bits == 1:
                px.append(pal[(row[x // 8] >> (7 - x % 8)) & 1][::-1])
            else:
                raise ValueError("bits %d" % bits)
        rows.append(px)
    return w, h, rows


# ------------------------------------------------------------------ image generation
def gen_image(r):
    kind = r.choice(["gray", "gray", "rgb", "rgb", "bw", "dct"])
    w, h = r.randint(1, 24), r.randint(1, 12)
    if kind == "gray":
        data = bytes(r.randrange(256) for _ in range(w * h))
        px = [[(data[y * w + x],) * 3 for x in range(w)] for y in range(h)]
        d = {"ColorSpace": Name("DeviceGray"), "BitsPerComponent": 8}
    elif kind == "rgb":
        data = bytes(r.randrange(256) for _ in range(3 * w * h))
        px = [[tuple(data[3 * (y * w + x):3 * (y * w + x) + 3]) for x in range(w)] for y in range(h)]
        d = {"ColorSpace": Name("DeviceRGB"), "BitsPerComponent": 8}
    elif kind == "bw":
        bpl = (w + 7) // 8
        data = bytes(r.randrange(256) for _ in range(bpl * h))
        px = [[((255,) * 3 if (data[y * bpl + x // 8] >> (7 - x % 8)) & 1 else (0,) * 3) for x in range(w)] for y in range(h)]
        d = {"ColorSpace": Name("DeviceGray"), "BitsPerComponent": 1}
    else:
        data = b"\xff\xd8\xff\xe0" + bytes(r.randrange(256) for _ in range(r.randint(4, 60))) + b"\xff\xd9"
        px = None
        d = {"ColorSpace": Name("DeviceRGB"), "BitsPerComponent": 8}
    d.update({"Type": Name("XObject"), "Subtype": Name("Image"), "Width": w, "Height": h})
    return kind, w, h, data, px, d


def encode_chain(r, data, kind):
    """returns (filter names, encoded data)"""
    if kind == "dct":
        chain = r.choice([[], [], ["ASCIIHexDecode"], ["FlateDecode"]])
        names = chain + ["DCTDecode"]
    else:
        names = r.choice([[], [], ["FlateDecode"], ["LZWDecode"], ["ASCII85Decode"], ["ASCIIHexDecode"], ["RunLengthDecode"],
                          ["ASCII85Decode", "FlateDecode"], ["ASCIIHexDecode", "LZWDecode"], ["FlateDecode", "RunLengthDecode"]])
        chain = names
    enc = data
    for f in reversed(chain):
        if f == "FlateDecode":
            enc = zlib.compress(enc)
        elif f == "LZWDecode":
            enc = c03.lzw_encode(r, enc)
        elif f == "ASCII85Decode":
            enc = c03.a85_encode(r, enc)
        elif f == "ASCIIHexDecode":
            enc = c03.hex_encode(r, enc)
        elif f == "RunLengthDecode":
            enc = c03.rl_encode(r, enc)
    return names, enc


def export(pdf, outdir):
    from pdfminer.high_level import extract_text_to_fp
    out = io.StringIO()
    extract_text_to_fp(io.BytesIO(pdf), out, output_type="text", output_dir=outdir)
    return out.getvalue()


def image_cases(ctx, n):
    bcases, metas = [], []
    for i in range(n):
        r = ctx.sub("img", i)
        npages = r.choice([1, 1, 2])
        objs = {1: {"Type": Name("Catalog"), "Pages": Ref(2)}}
        kids, images = [], []
        nid = 10
        for pg in range(npages):
            res, parts = {}, []
            for k in range(r.randint(1, 3)):
                kind, w, h, data, px, d = gen_image(r)
                names, enc = encode_chain(r, data, kind)
                if names:
                    d["Filter"] = Name(names[0]) if len(names) == 1 and r.random() < 0.5 else [Name(x) for x in names]
                rname = r.choice(["Im1", "Im1", "Im2", "X", "img.7"]) if k == 0 else "Im%d" % (k + 5)
                if rname in res:
                    rname += "b"
                objs[nid] = Stream(d, enc)
                res[rname] = Ref(nid)
                nid += 1
                parts.append(b"q %d 0 0 %d %d %d cm /%s Do Q" % (w * 4, h * 4, r.randint(0, 400), r.randint(0, 600), rname.encode()))
                images.append((pg, rname, kind, w, h, data, px, names))
            objs[nid] = Stream({}, b"\n".join(parts) + b"\nBT /F1 10 Tf 50 50 Td (after) Tj ET")
            objs[nid + 1] = {"Type": Name("Page"), "Parent": Ref(2), "MediaBox": [0, 0, 612, 792], "Contents": Ref(nid),
                             "Resources": {"XObject": res, "Font": {"F1": {"Type": Name("Font"), "Subtype": Name("Type1"), "BaseFont": Name("Helvetica")}}}}
            kids.append(Ref(nid + 1))
            nid += 2
        objs[2] = {"Type": Name("Pages"), "Kids": kids, "Count": len(kids)}
        pdf = write_pdf(objs, 1)
        outdir = fresh_dir("img%d" % (i % 16))
        pre = {}
        if r.random() < 0.4:                     # files already there must survive
            for nm in ("Im1.bmp", "Im1.jpg", "X.bmp", "Im1.0.bmp"):
                if r.random() < 0.6:
                    pre[nm] = b"precious " + nm.encode()
                    open(os.path.join(outdir, nm), "wb").write(pre[nm])
        fam = "images"
        inp = {"pdf": pdf.hex(), "images": [(pg, nm, kind, w, h, names) for pg, nm, kind, w, h, _, _, names in images], "pre": sorted(pre)}
        try:
            text = export(pdf, outdir)
        except BaseException as e:  # noqa
            ctx.violation(fam, inp, "exported files", type(e).__name__ + ": " + str(e)[:200], "image export raised")
            continue
        ctx.case(fam, pdf, nontrivial=any(names or (w * (24 if k == "rgb" else 8 if k == "gray" else 1) + 7) // 8 % 4 for _, _, k, w, _, _, _, names in images),
                 sample={"images": inp["images"][:3], "files": sorted(os.listdir(outdir))[:6]})
        if "after" not in text:
            ctx.violation(fam, inp, "text 'after'", text[:50], "operators after the images were not executed")
        files = sorted(os.listdir(outdir))
        for nm, content in pre.items():
            if open(os.path.join(outdir, nm), "rb").read() != content:
                ctx.violation(fam, inp, "existing file untouched", nm, "an existing file was overwritten")
        new = [f for f in files if f not in pre]
        if len(new) != len(images):
            ctx.violation(fam, inp, "%d new files" % len(images), new, "number of exported files differs from the number of images (names not distinct?)")
            continue
        # match files to images: by name stem, in order of creation
        used = set()
        for (pg, rname, kind, w, h, data, px, names) in images:
            ext = ".jpg" if kind == "dct" else ".bmp"
            cands = [f for f in new if f not in used and f.startswith(rname + ".") and f.endswith(ext)]
            ok = False
            for f in cands:
                b = open(os.path.join(outdir, f), "rb").read()
                if kind == "dct":
                    if b == data:
                        ok = True
                else:
                    try:
                        rw, rh, rows = read_bmp(b)
                    except Exception as e:  # noqa
                        continue
                    if (rw, rh) == (w, h) and rows == px:
                        ok = True
                if ok:
                    used.add(f)
                    if kind != "dct":
                        bits = {"gray": 8, "rgb": 24, "bw": 1}[kind]
                        bpl = {"gray": w, "rgb": 3 * w, "bw": (w + 7) // 8}[kind]
                        bcases.append(("(%d, %d, %d, %d, %s)" % (bits, w, h, bpl, gbytes(data)), CBy(b)))
                        metas.append(dict(inp, image=rname))
                    break
            if not ok:
                if cands and kind != "dct":          # the model is compared with the file even when the oracle rejects it
                    bits = {"gray": 8, "rgb": 24, "bw": 1}[kind]
                    bpl = {"gray": w, "rgb": 3 * w, "bw": (w + 7) // 8}[kind]
                    bcases.append(("(%d, %d, %d, %d, %s)" % (bits, w, h, bpl, gbytes(data)), CBy(open(os.path.join(outdir, cands[0]), "rb").read())))
                    metas.append(dict(inp, image=rname))
                detail = []
                for f in cands[:2]:
                    b = open(os.path.join(outdir, f), "rb").read()
                    try:
                        rw, rh, rows = read_bmp(b)
                        detail.append("%s decodes to %dx%d, first row %r" % (f, rw, rh, rows[0][:3]))
                    except Exception as e:  # noqa
                        detail.append("%s: %s" % (f, e))
                ctx.violation(fam, dict(inp, image=[pg, rname, kind, w, h, names]), "a file decoding to the stored samples",
                              detail or new, "exported file does not reproduce the image samples")
    bad = common.coq_cases("c18b", ["Model.Images", "Model.ImagesRun"], "run_bmp", bcases, shard=max(10, len(bcases) // 16))
    for j, shown in sorted(bad.items()):
        ctx.disagree("images", metas[j], shown[:300], "exported file bytes")
    shutil.rmtree(WORK, ignore_errors=True)


# ------------------------------------------------------------------ inline images
def has_marker(b):
    return any(b[k] == 69 and b[k + 1] == 73 and bytes([b[k + 2]]).isspace() for k in range(len(b) - 2))


def gen_inline_data(r, n, family):
    alphabet = [69, 73, 32, 10, 13, 0, 255, 65, 81] if family != "plain" else list(range(256))
    while True:
        d = bytes(r.choice(alphabet) if r.random() < 0.7 else r.randrange(256) for _ in range(n))
        if family == "cr":
            d = d[:-1] + b"\r"
        elif d.endswith(b"\r"):
            d = d[:-1] + b"x"
        if not has_marker(d + b"\n"):
            return d


def inline_cases(ctx, n):
    from pdfminer.high_level import extract_pages
    from pdfminer.layout import LTFigure, LTImage, LTChar, LAParams
    from pdfminer.pdfinterp import PDFContentParser
    scases = []
    for i in range(n):
        r = ctx.sub("inline", i)
        family = ["plain", "tricky", "tricky", "cr"][i % 4]
        w, h = r.randint(1, 8), r.randint(1, 6)
        data = gen_inline_data(r, w * h, family)
        ws = r.choice([b" ", b"\n", b"\r", b"\t"])
        follow = b"BT /F1 10 Tf 50 50 Td (ok%d) Tj ET" % i
        content = b"q 10 0 0 10 100 100 cm BI /W %d /H %d /CS /G /BPC 8 ID " % (w, h) + data + b"\nEI" + ws + b"Q " + follow
        objs = {1: {"Type": Name("Catalog"), "Pages": Ref(2)}, 2: {"Type": Name("Pages"), "Kids": [Ref(3)], "Count": 1},
                3: {"Type": Name("Page"), "Parent": Ref(2), "MediaBox": [0, 0, 612, 792], "Contents": Ref(4),
                    "Resources": {"Font": {"F1": {"Type": Name("Font"), "Subtype": Name("Type1"), "BaseFont": Name("Helvetica")}}}},
                4: Stream({}, content)}
        pdf = write_pdf(objs, 1)
        fam = "inline-cr" if family == "cr" else "inline"
        inp = {"data": data.hex(), "ws": ws.hex(), "w": w, "h": h}
        try:
            page = list(extract_pages(io.BytesIO(pdf), laparams=None))[0]
        except BaseException as e:  # noqa
            ctx.violation(fam, inp, "a page", type(e).__name__ + ": " + str(e)[:150], "page with an inline image raised")
            continue
        imgs = [o for f in page if isinstance(f, LTFigure) for o in f if isinstance(o, LTImage)]
        text = "".join(ch.get_text() for l in page if hasattr(l, "__iter__") and not isinstance(l, LTFigure) for ch in (l if not isinstance(l, LTChar) else [l])
                       if hasattr(ch, "get_text"))
        text = "".join(o.get_text() for o in flatten(page) if isinstance(o, LTChar))
        ctx.case(fam, content, nontrivial=any(c in data for c in b"EI"), sample={"data": data.hex()[:40], "text": text})
        got = imgs[0].stream.get_data() if imgs else None
        if got != data:
            ctx.violation(fam, inp, data.hex(), None if got is None else got.hex(), "inline image data not captured completely")
        elif imgs[0].srcsize != (w, h) or imgs[0].bits != 8:
            ctx.violation(fam, inp, (w, h, 8), (imgs[0].srcsize, imgs[0].bits), "inline image geometry")
        if text != "ok%d" % i:
            ctx.violation(fam, inp, "ok%d" % i, text, "operators after the inline image were not executed as written")
        # the scanner itself against the model
        tail = data + b"\nEI" + ws + b"Q " + follow
        p = PDFContentParser([Stream_like(tail)])
        try:
            _, d2 = p.get_inline_data(0)
            rest = tail[tail.index(d2) + len(d2):] if False else None
            consumed = p.bufpos + p.charpos
            scases.append((gbytes(tail), CLs([CBy(d2), CBy(tail[consumed:])])))
        except BaseException as e:  # noqa
            ctx.violation(fam, inp, "data", type(e).__name__, "get_inline_data raised")
    bad = common.coq_cases("c18i", ["Model.Images", "Model.ImagesRun"], "run_inline", scases, shard=200)
    for j, shown in sorted(bad.items()):
        ctx.disagree("inline", {"case": scases[j][0][:200]}, shown[:300], scases[j][1][:300])


def flatten(container):
    for o in container:
        yield o
        if hasattr(o, "__iter__") and not hasattr(o, "get_text"):
            yield from flatten(o)
        elif hasattr(o, "__iter__"):
            yield from flatten(o)


def Stream_like(data):
    from pdfminer.pdftypes import PDFStream
    return PDFStream({}, data)


def format_cases(ctx):
    """choice of writer: model vs the extension of the file actually written"""
    cases = []
    codes = {"DCTDecode": 0, "JPXDecode": 1, "JBIG2Decode": 2, "FlateDecode": 3}
    for filters in ([], ["FlateDecode"], ["LZWDecode"], ["ASCII85Decode", "FlateDecode"], ["DCTDecode"], ["FlateDecode", "DCTDecode"], ["RunLengthDecode"]):
        for bits, cs in ((8, 0), (8, 1), (1, 0), (1, 1), (8, 2), (4, 0), (16, 1)):
            w = 5
            want = None
            if filters and filters[-1] == "DCTDecode":
                want = [0]
            elif bits == 1:
                want = [3, (w + 7) // 8, 1]
            elif bits == 8 and cs == 1:
                want = [3, 3 * w, 24]
            elif bits == 8 and cs == 0:
                want = [3, w, 8]
            elif filters == ["FlateDecode"]:
                want = [4]
            else:
                want = [5]
            cases.append(("(%s, %d, %d, %d)" % (glist([str(codes.get(f, 9)) for f in filters]), bits, w, cs), CLs([CZ(x) for x in want])))
            ctx.case("format", (tuple(filters), bits, cs), nontrivial=True)
    bad = common.coq_cases("c18f", ["Model.Images", "Model.ImagesRun"], "run_format", cases, shard=100)
    for j, shown in sorted(bad.items()):
        ctx.disagree("format", {"case": cases[j][0]}, shown, cases[j][1])


def inline_export_cases(ctx, n):
    """inline images exported with ImageWriter: every spelling of the dictionary (abbreviated and full keys and colour
    space names), gray / RGB / 1-bit, several per page; each must come out as a file a BMP reader decodes to the samples"""
    for i in range(n):
        r = ctx.sub("inlexp", i)
        parts, images = [], []
        for k in range(r.randint(1, 3)):
            kind = r.choice(["gray", "gray", "rgb", "bw"])
            w, h = r.randint(1, 12), r.randint(1, 6)
            while True:
                if kind == "gray":
                    data = bytes(r.randrange(256) for _ in range(w * h))
                elif kind == "rgb":
                    data = bytes(r.randrange(256) for _ in range(3 * w * h))
                else:
                    data = bytes(r.randrange(256) for _ in range((w + 7) // 8 * h))
                if b"EI" not in data and data[-1:] not in (b"\r", b"\n"):
                    break
            if kind == "gray":
                px = [[(data[y * w + x],) * 3 for x in range(w)] for y in range(h)]
            elif kind == "rgb":
                px = [[tuple(data[3 * (y * w + x):3 * (y * w + x) + 3]) for x in range(w)] for y in range(h)]
            else:
                bpl = (w + 7) // 8
                px = [[((255,) * 3 if (data[y * bpl + x // 8] >> (7 - x % 8)) & 1 else (0,) * 3) for x in range(w)] for y in range(h)]
            cs = {"gray": r.choice([b"/G", b"/DeviceGray"]), "bw": r.choice([b"/G", b"/DeviceGray"]), "rgb": r.choice([b"/RGB", b"/DeviceRGB"])}[kind]
            d = [(r.choice([b"/W", b"/Width"]), b"%d" % w), (r.choice([b"/H", b"/Height"]), b"%d" % h),
                 (r.choice([b"/CS", b"/ColorSpace"]), cs), (r.choice([b"/BPC", b"/BitsPerComponent"]), b"1" if kind == "bw" else b"8")]
            r.shuffle(d)
            parts.append(b"q %d 0 0 %d %d %d cm BI " % (4 * w, 4 * h, r.randint(0, 400), r.randint(0, 600)) + b" ".join(a + b" " + b for a, b in d) + b" ID " + data + b"\nEI Q")
            images.append((kind, w, h, px, cs.decode()))
        content = b"\n".join(parts) + b"\nBT /F1 10 Tf 50 50 Td (after) Tj ET"
        objs = {1: {"Type": Name("Catalog"), "Pages": Ref(2)}, 2: {"Type": Name("Pages"), "Kids": [Ref(3)], "Count": 1},
                3: {"Type": Name("Page"), "Parent": Ref(2), "MediaBox": [0, 0, 612, 792], "Contents": Ref(4),
                    "Resources": {"Font": {"F1": {"Type": Name("Font"), "Subtype": Name("Type1"), "BaseFont": Name("Helvetica")}}}},
                4: Stream({}, content)}
        pdf = write_pdf(objs, 1)
        outdir = fresh_dir("inl%d" % (i % 16))
        fam = "inline-export"
        inp = {"pdf": pdf.hex(), "images": [(k, w, h, cs) for k, w, h, _, cs in images]}
        try:
            text = export(pdf, outdir)
        except BaseException as e:  # noqa
            ctx.violation(fam, inp, "exported files", type(e).__name__ + ": " + str(e)[:200], "export of inline images raised")
            continue
        ctx.case(fam, pdf, nontrivial=True, sample={"images": inp["images"], "files": sorted(os.listdir(outdir))[:4]})
        if "after" not in text:
            ctx.violation(fam, inp, "text 'after'", text[:50], "operators after the inline images were not executed")
        files = sorted(os.listdir(outdir))
        if len(files) != len(images):
            ctx.violation(fam, inp, "%d files" % len(images), files, "number of exported files differs from the number of inline images (names not distinct?)")
            continue
        decoded = []
        for f in files:
            try:
                decoded.append(read_bmp(open(os.path.join(outdir, f), "rb").read()))
            except Exception as e:  # noqa
                decoded.append((f, str(e)))
        for kind, w, h, px, cs in images:
            want = (w, h, px)
            if want in decoded:
                decoded.remove(want)
            else:
                ctx.violation(fam, dict(inp, image=[kind, w, h, cs]), "a file a BMP reader decodes to the stored samples", files,
                              "exported inline image does not reproduce the samples")
                break
    shutil.rmtree(WORK, ignore_errors=True)


def correspondence(ctx):
    format_cases(ctx)
    image_cases(ctx, ctx.n(120, 2500))
    inline_cases(ctx, ctx.n(300, 6000))
    inline_export_cases(ctx, ctx.n(80, 1500))


def oracle(ctx):
    pass


def known_match(finding, item):
    return item.get("kind") == "property" and item.get("family") == finding.get("family")


def confirm_known(ctx, finding):
    return False


def replay(ctx, data):
    item = data.get("violation") or (data.get("correspondence_disagreements") or [None])[0]
    print("replay: re-run ./check C18; stored case:", str(item)[:1500])


if __name__ == "__main__":
    sys.exit(common.main(sys.modules[__name__]))
