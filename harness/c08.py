#!/usr/bin/env python3
"""C08 -- layout analysis conserves content and keeps its hierarchy well-formed (DESIGN.md section 4, C08)."""
import io
import os
import sys
import time
from fractions import Fraction

sys.path.insert(0, os.path.dirname(os.path.abspath(__file__)))
import common
import layoutgen as lg

PROP = "C08"
GEN = ["gen_geom"]
PROPS_FILE = "theories/Props/C08.v"
COQ_TARGETS = ["theories/Props/C08.vo", "theories/Model/LayoutRun.vo"]
DRIVER = None
LEVEL = "proof"
RULE = ("pages built directly from genuine LTChar objects with exact binary coordinates: paragraphs, columns, grids, "
        "vertical runs, overlapping runs, random scatter incl. off-page, zero-width/height and blank/empty-text glyphs; "
        "LAParams over a grid of dyadic values incl. 0, negative, huge margins, boxes_flow None/-1..1, detect_vertical; "
        "LTPage.analyze observed as a tree and compared (a) with Model/Layout.v evaluated in Coq on the same rationals "
        "(whole structure: box order, indices, boxes, lines, inserted spaces, line breaks, empties), incl. heap ties, "
        "(b) with the conservation/well-formedness oracle on every case; plus generated PDF documents "
        "through extract_pages with figures and shapes. Non-trivial: >= 2 lines or >= 2 boxes.")
TRUSTED = [
    "modelled by hand: LTComponent overlap/distance helpers, LTTextLine*.add, group_objects, find_neighbors, "
    "group_textlines, group_textboxes (heap = repeated minimum), analyze passes and IndexAssigner (Model/Layout.v); the "
    "spatial index is the C20 model (Model/Plane.v) with its generated clamp/drange",
    "floats: inputs are binary-exact and small, so Python's float arithmetic is exact and equals the model's rationals; "
    "heap ties are broken by creation order in the implementation (since repo fix 14047fc) and in the model",
]
ASSUMPTIONS = ["line_margin >= 0 for the conservation theorem of group_textlines (a line is then its own neighbour)"]
MANIFEST_ENTRY = {
    "category": "proof",
    "technique": "Coq proofs by induction (group_objects partitions the glyph sequence into consecutive runs; line box = "
                 "union; group_textlines keeps every line in exactly one live box -- invariant over the line loop for any "
                 "neighbour function containing the line itself; group_textboxes keeps every box as exactly one leaf and "
                 "terminates within the stated fuel -- measure argument; stable sorts are permutations) + differential runs "
                 "of the whole analysis on exact rationals + conservation oracle",
    "text": "Theorems: the glyphs of the lines of group_objects, concatenated, are the input sequence (nothing lost, "
            "duplicated or reordered) and each line's box is the union of its glyphs'; after group_textlines every "
            "non-empty line is a member of exactly one yielded-or-empty box; the leaves of the final group tree are the "
            "input boxes, each once, and the loop ends within 2(n^2+n)+2 iterations; sorting is a permutation, so boxes "
            "are numbered 0..n-1 in output order; every analysed line ends in exactly one line break.",
    "note": "Trusted: Coq kernel, hand model tied by differential runs (exact), C20's plane model.",
    "design_ref": "DESIGN.md section 4, C08",
}


def fr(x):
    return Fraction(x)


def check_tree(ctx, fam, inp, page, chars, n_other):
    """conservation and well-formedness of the analysed page (the property text, on the implementation)"""
    from pdfminer.layout import (LTTextBox, LTTextLine, LTChar, LTAnno, LTTextBoxVertical, LTTextLineVertical,
                                 LTTextLineHorizontal, LTTextGroup, LTTextContainer)
    seen = []
    others = 0
    boxes = []

    def union(objs):
        objs = [o for o in objs if hasattr(o, "bbox")]
        return (min(o.x0 for o in objs), min(o.y0 for o in objs), max(o.x1 for o in objs), max(o.y1 for o in objs))

    def viol(what, exp, obs):
        ctx.violation(fam, inp, exp, obs, what)

    def line_ok(line):
        items = list(line)
        cs = [e for e in items if isinstance(e, LTChar)]
        seen.extend(id(c) for c in cs)
        if not cs:
            return viol("a text line without glyphs", ">= 1 glyph", 0)
        if tuple(line.bbox) != union(cs):
            viol("line bounding box is not the union of its glyphs'", union(cs), tuple(line.bbox))
        if not (isinstance(items[-1], LTAnno) and items[-1].get_text() == "\n") or sum(1 for e in items if isinstance(e, LTAnno) and e.get_text() == "\n") != 1:
            viol("line does not end in exactly one line break", "...\\n", repr(line.get_text())[-20:])
        if line.get_text() != "".join(e.get_text() for e in items):
            viol("line text is not the concatenation of its members' text", "concat", repr(line.get_text())[:40])
    for o in page:
        if isinstance(o, LTTextBox):
            boxes.append(o)
            lines = list(o)
            if not lines:
                viol("empty text box in the output", ">= 1 line", 0)
                continue
            vert = isinstance(o, LTTextBoxVertical)
            for l in lines:
                if not isinstance(l, LTTextLine):
                    viol("text box member that is not a line", "LTTextLine", type(l).__name__)
                    continue
                if isinstance(l, LTTextLineVertical) != vert:
                    viol("line orientation differs from its box", vert, not vert)
                line_ok(l)
            if tuple(o.bbox) != union(lines):
                viol("box bounding box is not the union of its lines'", union(lines), tuple(o.bbox))
            keys = [(-l.x1 if vert else -l.y1) for l in lines]
            if keys != sorted(keys):
                viol("lines inside a box are not ordered top-to-bottom / right-to-left", sorted(keys), keys)
            if o.get_text() != "".join(l.get_text() for l in lines):
                viol("box text is not the concatenation of its lines'", "concat", repr(o.get_text())[:40])
        elif isinstance(o, LTTextLine):
            line_ok(o)
        elif isinstance(o, LTChar):
            seen.append(id(o))
        else:
            others += 1
    want = sorted(id(c) for c in chars)
    if sorted(seen) != want:
        missing = len(set(want) - set(seen))
        dup = len(seen) - len(set(seen))
        viol("glyphs lost or duplicated by layout analysis", "%d glyphs once each" % len(want), "%d missing, %d duplicated" % (missing, dup))
    if others != n_other:
        viol("non-text items lost or duplicated", n_other, others)
    if [b.index for b in boxes] != list(range(len(boxes))):
        viol("text boxes are not numbered 0..n-1 in output order", list(range(len(boxes))), [b.index for b in boxes])
    # groups: every box exactly once, bbox = union of members
    if page.groups is not None:
        leaves = []

        def walk(g):
            if isinstance(g, LTTextBox):
                leaves.append(id(g))
                return
            kids = list(g)
            if tuple(g.bbox) != union(kids):
                viol("group bounding box is not the union of its members'", union(kids), tuple(g.bbox))
            for k in kids:
                walk(k)
        for g in page.groups:
            walk(g)
        if sorted(leaves) != sorted(id(b) for b in boxes):
            viol("group hierarchy does not contain every text box exactly once", len(boxes), len(leaves))


def cases(ctx, n):
    inputs, metas = [], []
    for i in range(n):
        r = ctx.sub("layout", i)
        kind = lg.KINDS[i % len(lg.KINDS)]
        gs = lg.gen_arrangement(r, kind)
        if len(gs) > 40:
            gs = gs[:40]
        p = lg.gen_params(r, extreme=(i % 5 == 4))
        page, chars = lg.build_page(gs)
        fam = "layout-" + kind
        inp = {"glyphs": [[str(v) for v in b] + [t] for b, t in gs], "params": {k: (None if v is None else str(v)) for k, v in p.items()}}
        t0 = time.time()
        try:
            page.analyze(lg.la(p))
        except BaseException as e:  # noqa
            ctx.violation(fam, inp, "a layout tree", type(e).__name__ + ": " + str(e)[:150], "layout analysis raised")
            continue
        if time.time() - t0 > 20:
            ctx.violation(fam, inp, "bounded time", "%.1fs" % (time.time() - t0), "layout analysis took too long")
        boxes, empties = lg.observe(page, chars)
        ctx.case(fam, repr(inp), nontrivial=len(boxes) >= 2 or sum(len(b[3]) for b in boxes) >= 2,
                 sample={"kind": kind, "glyphs": len(gs), "boxes": len(boxes), "text": "".join(c.get_text() for c in page if hasattr(c, "get_text"))[:60]})
        check_tree(ctx, fam, inp, page, chars, 0)
        inputs.append("(%s, %s, %s)" % (lg.g_params(p), lg.g_box([Fraction(0), Fraction(0), Fraction(612), Fraction(792)]), lg.g_glyphs(gs)))
        metas.append((fam, inp, boxes, empties))
    res = common.coq_eval("c08a", ["Model.Layout", "Model.LayoutRun"], "run_analyze", inputs, shard=max(4, len(inputs) // 32))
    namb = 0
    for (fam, inp, boxes, empties), val in zip(metas, res):
        if val == -1:
            ctx.disagree(fam, inp, "out of fuel", "terminated")
            continue
        mboxes, mempties, mgroups, amb = val
        if amb:
            namb += 1            # equal distances in the heap: ordered by creation order in model and implementation

        def mq(v):
            return Fraction(v[0], v[1])

        def mline(l):
            return [l[0], [mq(v) for v in l[1]], l[2]]

        def iline(l):
            return [l[0], [fr(v) for v in l[1]], l[2]]
        mb = [[b[0], b[1], [mq(v) for v in b[2]], [mline(l) for l in b[3]]] for b in mboxes]
        ib = [[b[0], b[1], [fr(v) for v in b[2]], [iline(l) for l in b[3]]] for b in boxes]
        if mb != ib or [mline(l) for l in mempties] != [iline(l) for l in empties]:
            ctx.disagree(fam, inp, repr(mb)[:600], repr(ib)[:600])
    ctx.note("%d of %d cases had heap ties (compared as well)" % (namb, len(metas)))


def raw_page(pdf):
    """the page before layout analysis (extract_pages(laparams=None) would substitute default parameters)"""
    from pdfminer.pdfparser import PDFParser
    from pdfminer.pdfdocument import PDFDocument
    from pdfminer.pdfpage import PDFPage
    from pdfminer.pdfinterp import PDFResourceManager, PDFPageInterpreter
    from pdfminer.converter import PDFPageAggregator
    doc = PDFDocument(PDFParser(io.BytesIO(pdf)))
    rm = PDFResourceManager()
    dev = PDFPageAggregator(rm, laparams=None)
    interp = PDFPageInterpreter(rm, dev)
    for page in PDFPage.create_pages(doc):
        interp.process_page(page)
        return dev.get_result()


def doc_cases(ctx, n):
    """real documents: text, figures (form XObjects) and shapes through extract_pages"""
    from pdfwriter import Name, Ref, Stream, write_pdf
    from pdfminer.high_level import extract_pages
    from pdfminer.layout import LTChar, LTFigure, LTRect, LTLine, LTCurve, LTTextBox, LTTextLine
    for i in range(n):
        r = ctx.sub("doc", i)
        p = lg.gen_params(r, extreme=(i % 4 == 3))
        parts, nshapes = [], 0
        for _ in range(r.randint(1, 5)):
            k = r.random()
            if i % 5 == 4:
                k = 0.6 + 0.4 * k        # pages without a glyph of their own: only shapes and figures (forms with text)
            if k < 0.6:
                words = " ".join("".join(r.choice("abcdefghij") for _ in range(r.randint(1, 6))) for _ in range(r.randint(1, 5)))
                parts.append("BT /F1 %d Tf %d %d Td (%s) Tj ET" % (r.choice([8, 10, 12, 24]), r.randint(-50, 650), r.randint(-50, 850), words))
            elif k < 0.8:
                parts.append("%d %d %d %d re S" % (r.randint(0, 500), r.randint(0, 700), r.randint(1, 100), r.randint(1, 100)))
                nshapes += 1
            else:
                parts.append("q 1 0 0 1 %d %d cm /Fm1 Do Q" % (r.randint(0, 300), r.randint(0, 300)))
                nshapes += 1
        content = "\n".join(parts).encode()
        form = Stream({"Type": Name("XObject"), "Subtype": Name("Form"), "BBox": [0, 0, 100, 100],
                       "Resources": {"Font": {"F1": Ref(7)}}}, b"BT /F1 9 Tf 5 5 Td (in form) Tj ET 0 0 10 10 re f")
        objs = {1: {"Type": Name("Catalog"), "Pages": Ref(2)}, 2: {"Type": Name("Pages"), "Kids": [Ref(3)], "Count": 1},
                3: {"Type": Name("Page"), "Parent": Ref(2), "MediaBox": [0, 0, 612, 792], "Contents": Ref(4),
                    "Resources": {"Font": {"F1": Ref(7)}, "XObject": {"Fm1": Ref(6)}}},
                4: Stream({}, content), 6: form, 7: {"Type": Name("Font"), "Subtype": Name("Type1"), "BaseFont": Name("Helvetica")}}
        pdf = write_pdf(objs, 1)
        la = lg.la(p)
        la.all_texts = r.random() < 0.5
        fam = "doc"
        inp = {"pdf": pdf.hex(), "params": {k: (None if v is None else str(v)) for k, v in p.items()}, "all_texts": la.all_texts}
        try:
            raw = raw_page(pdf)
            page = list(extract_pages(io.BytesIO(pdf), laparams=la))[0]
        except BaseException as e:  # noqa
            ctx.violation(fam, inp, "a layout tree", type(e).__name__ + ": " + str(e)[:150], "extract_pages raised")
            continue
        nchars = sum(1 for o in raw if isinstance(o, LTChar))
        nother = sum(1 for o in raw if not isinstance(o, LTChar))

        def count(container):
            c = o_ = 0
            for o in container:
                if isinstance(o, LTTextBox):
                    for l in o:
                        c += sum(1 for e in l if isinstance(e, LTChar))
                elif isinstance(o, LTTextLine):
                    c += sum(1 for e in o if isinstance(e, LTChar))
                elif isinstance(o, LTChar):
                    c += 1
                else:
                    o_ += 1
            return c, o_
        c, o_ = count(page)
        ctx.case(fam, pdf, nontrivial=nchars > 3, sample={"content": content.decode()[:120], "glyphs": nchars, "others": nother})
        if (c, o_) != (nchars, nother):
            ctx.violation(fam, inp, (nchars, nother), (c, o_), "page-level glyphs / other items not conserved by layout analysis")
        # figures: same number of glyphs inside, analysed or not
        rf = [o for o in raw if isinstance(o, LTFigure)]
        pf = [o for o in page if isinstance(o, LTFigure)]
        for a, b in zip(rf, pf):
            ca, cb = count(a), count(b)
            if ca != cb:
                ctx.violation(fam, inp, ca, cb, "glyphs / items inside a figure not conserved")
        if la.all_texts:
            # with all_texts the contents of every figure are analysed like a page: no glyph is left outside a text line
            def bare(fig):
                out = 0
                for o in fig:
                    if isinstance(o, LTChar):
                        out += 1
                    elif isinstance(o, LTFigure):
                        out += bare(o)
                return out
            for b in pf:
                if bare(b):
                    ctx.violation(fam, inp, "every glyph of a figure inside a text line (all_texts)", "%d bare glyphs" % bare(b),
                                  "figure contents not analysed although all_texts is set")
                    break
                for o in b:
                    if isinstance(o, LTTextBox):
                        for l in o:
                            if not l.get_text().endswith("\n"):
                                ctx.violation(fam, inp, "line break", repr(l.get_text()[-3:]), "a text line inside a figure does not end in a line break")
        texts = sorted(ch.get_text() for ch in raw if isinstance(ch, LTChar))
        got = sorted(e.get_text() for o in page if isinstance(o, (LTTextBox,)) for l in o for e in l if isinstance(e, LTChar)) + \
            sorted(e.get_text() for o in page if isinstance(o, LTTextLine) for e in o if isinstance(e, LTChar))
        if sorted(got) != texts:
            ctx.violation(fam, inp, "".join(texts)[:80], "".join(sorted(got))[:80], "glyph texts altered by layout analysis")


def correspondence(ctx):
    cases(ctx, ctx.n(350, 6000))
    doc_cases(ctx, ctx.n(60, 1500))


def oracle(ctx):
    pass


def known_match(finding, item):
    return False


def confirm_known(ctx, finding):
    return False


def replay(ctx, data):
    item = data.get("violation") or (data.get("correspondence_disagreements") or [None])[0]
    print("replay: re-run ./check C08; stored case:", str(item)[:1500])


if __name__ == "__main__":
    sys.exit(common.main(sys.modules[__name__]))
