#!/usr/bin/env python3
"""C17 -- page labels, outlines and named destinations follow their tree definitions (DESIGN.md section 4, C17)."""
import io
import os
import sys

sys.path.insert(0, os.path.dirname(os.path.abspath(__file__)))
import common
from common import CZ, CBy, CLs, gz, glist, gopt, gnat, gbytes, gbool
from pdfwriter import Name, Ref, write_pdf

PROP = "C17"
GEN = ["gen_text"]
PROPS_FILE = "theories/Props/C17.v"
COQ_TARGETS = ["theories/Props/C17.vo", "theories/Model/LabelsRun.vo"]
DRIVER = None
LEVEL = "proof"
RULE = ("generated /PageLabels number trees (root Nums and/or Kids, depth<=3, fan-out<=5, direct and indirect nodes, all "
        "styles D R r A a none and unknown, PDFDocEncoded and UTF-16BE prefixes, St incl. 0/negative/4000), /Names /Dests "
        "name trees (Limits at every level, balanced and degenerate, also mis-limited ones for model-vs-implementation "
        "only), outline forests (First/Last/Next, entries without A/Dest, missing Last), and text strings (BOM, surrogate "
        "pairs, lone surrogates, odd length); PDFDocument.get_page_labels/get_dest/get_outlines and utils.decode_text vs "
        "Model/Labels.v evaluated in Coq and vs ISO oracles written in the harness; roman/alpha exhaustively 1..3999. "
        "Non-trivial: >=2 ranges / depth>=2 tree / nested outline / non-ASCII string.")
TRUSTED = [
    "modelled by hand: NumberTree._parse/values, PageLabels.labels, format_int_roman/alpha, lookup_name, get_outlines' "
    "search, decode_text (Model/Labels.v); generated from source: PDFDocEncoding, ROMAN_ONES/FIVES (Gen/TextTables.v)",
    "Python's utf-16-be codec with errors='ignore' and list.sort (stable) are modelled; object loading is C02's",
]
ASSUMPTIONS = ["number-tree keys are integers >= 0; destination values are truthy (arrays/dicts), as lookup_name tests `if v`"]
MANIFEST_ENTRY = {
    "category": "proof",
    "technique": "Coq proofs by induction on trees/ranges (stable sort = sorted permutation, label_at = ISO range rule, "
                 "name-tree lookup = association over leaves under Limits well-formedness, outline search = preorder) plus "
                 "vm_compute over the finite roman domain; differential runs on generated documents",
    "text": "Theorems: number-tree values are a sorted permutation of all leaf entries for any tree shape; for sorted ranges "
            "starting at 0 the k-th generated label is the ISO 12.4.2 label of page k for every k; roman numerals equal the "
            "standard table for all 1..3999 (finite sweep lifted by forallb_forall); name-tree lookup finds exactly the "
            "value of a present key and signals not-found for an absent one on every tree whose Limits bound their subtrees "
            "and whose sibling ranges are disjoint; the outline search yields the preorder with levels on every honest "
            "forest; PDFDocEncoding/UTF-16BE decoding of every BOM-less / well-formed string. Alpha labels beyond 26 deviate "
            "from ISO (known finding, pinned by the test suite).",
    "note": "Trusted: Coq kernel, translator for the tables, hand models tied by differential runs on generated PDFs, harness "
            "PDF writer. Recursion limit (long Next chains, cyclic outlines) is outside the model (C13).",
    "design_ref": "DESIGN.md section 4, C17",
}

STYLES = {"D": "SD", "R": "SR", "r": "Sr", "A": "SA", "a": "Sa", None: "SNone", "X": "SOther"}


# ------------------------------------------------------------------ ISO oracles (independent of the model)
def iso_roman(n):
    out = ""
    for v, s in [(1000, "m"), (900, "cm"), (500, "d"), (400, "cd"), (100, "c"), (90, "xc"), (50, "l"), (40, "xl"),
                 (10, "x"), (9, "ix"), (5, "v"), (4, "iv"), (1, "i")]:
        while n >= v:
            out += s
            n -= v
    return out


def iso_alpha(n):
    return chr(97 + (n - 1) % 26) * ((n - 1) // 26 + 1)


def iso_label(ranges, i):
    """ranges: sorted [(start, style, prefix_text, st)]"""
    cur = None
    for r in ranges:
        if r[0] <= i:
            cur = r
    if cur is None:
        return ""
    start, style, prefix, st = cur
    v = st + (i - start)
    if style == "D":
        lab = str(v)
    elif style in ("R", "r"):
        lab = iso_roman(v)
        lab = lab.upper() if style == "R" else lab
    elif style in ("A", "a"):
        lab = iso_alpha(v)
        lab = lab.upper() if style == "A" else lab
    else:
        lab = ""
    return prefix + lab


# ------------------------------------------------------------------ labels
def gen_labels(r, family):
    """returns (tree, flat entries in _parse order, npages)"""
    npages = r.randint(1, 40)
    nranges = r.randint(1, 6)
    wf = family != "labels-unsorted"
    keys = sorted(set([0] + [r.randint(0, npages + 3) for _ in range(nranges - 1)])) if wf else \
        [r.randint(0, npages) for _ in range(nranges)]
    if wf and r.random() < 0.15:
        keys = [k for k in keys if k != 0] or [2]       # missing index 0: empty labels for the initial pages
    entries = []
    for k in keys:
        style = r.choice(["D", "D", "R", "r", "A", "a", None, "X"])
        st = r.choice([1, 1, 1, 2, 5, 10, 26, 3990]) if r.random() < 0.9 else r.choice([0, -3, 4000, 3999])
        if family == "labels-alpha27" and style not in ("A", "a"):
            style = r.choice(["A", "a"])
        if family == "labels-alpha27":
            st = r.choice([20, 26, 27, 52, 700])
        elif style in ("A", "a") and st + npages > 26:
            st = 1 if npages <= 26 else None
            if st is None:
                style, st = "D", 1
        p = r.choice([None, None, b"A-", b"\xfe\xff\x00P\x04\x10", b"p\x80\x18", b""])
        entries.append((k, style, p, st))
    # distribute entries over a tree: contiguous runs to leaves
    def build(es, depth):
        if depth == 0 or len(es) <= 1 or r.random() < 0.3:
            return {"nums": es, "kids": []}
        cut = sorted(set(r.randint(1, len(es) - 1) for _ in range(r.randint(1, 3))))
        parts = [es[a:b] for a, b in zip([0] + cut, cut + [len(es)])]
        own = parts.pop(0) if r.random() < 0.2 else []
        return {"nums": own, "kids": [build(p, depth - 1) for p in parts]}
    tree = build(entries, r.randint(0, 3))
    return tree, npages


def label_dict(style, p, st, r):
    d = {}
    if style is not None:
        d["S"] = Name(style)
    if p is not None:
        d["P"] = p
    if st != 1 or r.random() < 0.3:
        d["St"] = st
    return d


def emit_numtree(tree, objs, nxt, r):
    d = {}
    if tree["nums"] or not tree["kids"]:
        arr = []
        for k, style, p, st in tree["nums"]:
            ld = label_dict(style, p, st, r)
            if r.random() < 0.4:
                nxt[0] += 1
                objs[nxt[0]] = ld
                ld = Ref(nxt[0])
            arr += [k, ld]
        d["Nums"] = arr
    if tree["kids"]:
        ks = []
        for c in tree["kids"]:
            cd = emit_numtree(c, objs, nxt, r)
            if r.random() < 0.7:
                nxt[0] += 1
                objs[nxt[0]] = cd
                cd = Ref(nxt[0])
            ks.append(cd)
        d["Kids"] = ks
    return d


def g_numtree(tree):
    nums = glist(["(%s, mkLD %s (decode_text %s) %s)" % (gz(k), STYLES[style], gbytes(p or b""), gz(st))
                  for k, style, p, st in tree["nums"]])
    return "(NT %s %s)" % (nums, glist([g_numtree(c) for c in tree["kids"]]))


def flat_entries(tree):
    out = list(tree["nums"])
    for c in tree["kids"]:
        out += flat_entries(c)
    return out


def open_doc(objs):
    from pdfminer.pdfparser import PDFParser
    from pdfminer.pdfdocument import PDFDocument
    return PDFDocument(PDFParser(io.BytesIO(write_pdf(objs, 1))))


def base_objs():
    return {1: {"Type": Name("Catalog"), "Pages": Ref(2)}, 2: {"Type": Name("Pages"), "Kids": [], "Count": 0}}


def labels_cases(ctx, n):
    from pdfminer.utils import decode_text
    cases, metas = [], []
    for i in range(n):
        r = ctx.sub("labels", i)
        family = ["labels", "labels", "labels", "labels-unsorted", "labels-alpha27"][i % 5]
        tree, npages = gen_labels(r, family)
        objs = base_objs()
        nxt = [100]
        objs[1]["PageLabels"] = emit_numtree(tree, objs, nxt, r)
        doc = open_doc(objs)
        N = npages + 3
        got, err = [], None
        try:
            it = doc.get_page_labels()
            for _ in range(N):
                got.append(next(it))
        except AssertionError:
            err = "AssertionError"
        except BaseException as e:  # noqa
            err = type(e).__name__
        entries = flat_entries(tree)
        ctx.case(family, repr((tree, npages)), nontrivial=len(entries) >= 2,
                 sample={"entries": [[k, s, (p or b"").hex(), st] for k, s, p, st in entries], "labels": got[:8], "err": err})
        want_items = [CLs([CZ(ord(c)) for c in lab]) for lab in got]
        if err == "AssertionError":
            want_items.append(CZ(-1))
        elif err is not None:
            want_items.append(CZ(-3))
        cases.append(("(%s, %s)" % (g_numtree(tree), gnat(N)), CLs(want_items)))
        metas.append((family, tree, npages, got, err))
        # ISO oracle on well-formed trees
        if family != "labels-unsorted":
            ranges = sorted([(k, s, decode_text(p or b""), st) for k, s, p, st in entries], key=lambda t: t[0])
            for idx in range(N):
                start = max([t for t in ranges if t[0] <= idx], key=lambda t: t[0], default=None)
                if start is not None and start[1] in ("R", "r") and not (0 < start[3] + idx - start[0] < 4000):
                    break                                     # ISO gives no roman numeral there; AssertionError observed
                if start is not None and start[1] in ("A", "a") and start[3] + idx - start[0] <= 0:
                    break
                want = iso_label(ranges, idx)
                if idx >= len(got) or got[idx] != want:
                    fam2 = family
                    if start is not None and start[1] in ("A", "a") and start[3] + idx - start[0] > 26:
                        fam2 = "labels-alpha27"          # the recorded deviation, reached from another family
                    ctx.violation(fam2, {"entries": [[k, s, (p or b"").hex(), st] for k, s, p, st in entries],
                                           "page": idx}, want, got[idx] if idx < len(got) else err,
                                  "page label differs from ISO 32000-1 12.4.2")
                    break
    bad = common.coq_cases("c17l", ["Model.Labels", "Model.LabelsRun"], "run_labels", cases, shard=300)
    for i, shown in sorted(bad.items()):
        family, tree, npages, got, err = metas[i]
        ctx.disagree(family, {"tree": repr(tree), "npages": npages}, shown, [got, err])


def roman_alpha_cases(ctx):
    from pdfminer.utils import format_int_roman, format_int_alpha
    rc, ac = [], []
    for n in list(range(1, 4000)) + [0, -1, 4000, 5000]:
        try:
            got = format_int_roman(n)
            want = CBy(got.encode())
            if got != iso_roman(n):
                ctx.violation("roman", {"n": n}, iso_roman(n), got, "roman numeral differs from the standard form")
        except AssertionError:
            want = CZ(-1)
        rc.append((gz(n), want))
        ctx.case("roman", n, nontrivial=n > 0)
    for n in list(range(-2, 800)) + [26 ** 2 + 26, 26 ** 3, 10 ** 9]:
        try:
            got = format_int_alpha(n)
            want = CBy(got.encode())
            if 0 < n <= 26 and got != iso_alpha(n):
                ctx.violation("alpha", {"n": n}, iso_alpha(n), got, "letter label differs from ISO")
        except AssertionError:
            want = CZ(-1)
        ac.append((gz(n), want))
        ctx.case("alpha", n, nontrivial=n > 0)
    for tag, fn, cs in (("c17r", "run_roman", rc), ("c17a", "run_alpha", ac)):
        bad = common.coq_cases(tag, ["Model.Labels", "Model.LabelsRun"], fn, cs, shard=1500)
        for i, shown in sorted(bad.items()):
            ctx.disagree(tag, {"n": cs[i][0]}, shown, cs[i][1])


# ------------------------------------------------------------------ name trees
def gen_nametree(r, wf):
    nkeys = r.randint(0, 14)
    keys = sorted(set(bytes(r.choice(b"abcXYZ\x00\xff19") for _ in range(r.randint(0, 4))) for _ in range(nkeys)))
    entries = [(k, r.choice([0, 0, 7]) if r.random() < 0.05 else 10 + j) for j, k in enumerate(keys)]

    def build(es, depth, root):
        if depth == 0 or len(es) <= 1 or r.random() < 0.25:
            node = {"names": list(es), "kids": None}
        else:
            cut = sorted(set(r.randint(1, len(es) - 1) for _ in range(r.randint(1, 3))))
            parts = [es[a:b] for a, b in zip([0] + cut, cut + [len(es)])]
            node = {"names": None, "kids": [build(p, depth - 1, False) for p in parts]}
        node["limits"] = None
        if es and (not root or (not wf and r.random() < 0.2)):   # ISO: no Limits in the root
            node["limits"] = (es[0][0], es[-1][0])
        if not wf and r.random() < 0.3:
            k = r.random()
            if k < 0.4 and node["limits"]:
                node["limits"] = (node["limits"][1], node["limits"][0])       # reversed limits
            elif k < 0.7 and node["limits"]:
                node["limits"] = (node["limits"][0], node["limits"][0])       # too narrow
            elif node["names"] is not None and node["names"]:
                node["names"] = node["names"] + [node["names"][0]] if r.random() < 0.5 else node["names"][::-1]
        return node
    return build(entries, r.randint(0, 3), True), entries


def emit_nametree(node, objs, nxt, r):
    d = {}
    if node["limits"] is not None:
        d["Limits"] = [node["limits"][0], node["limits"][1]]
    if node["names"] is not None:
        arr = []
        for k, v in node["names"]:
            arr += [k, ([v, Name("Fit")] if v != 0 else [])]
        d["Names"] = arr
    if node["kids"] is not None:
        ks = []
        for c in node["kids"]:
            cd = emit_nametree(c, objs, nxt, r)
            if r.random() < 0.7:
                nxt[0] += 1
                objs[nxt[0]] = cd
                cd = Ref(nxt[0])
            ks.append(cd)
        d["Kids"] = ks
    return d


def g_nametree(node):
    lim = "None" if node["limits"] is None else "(Some (%s, %s))" % (gbytes(node["limits"][0]), gbytes(node["limits"][1]))
    nm = "None" if node["names"] is None else "(Some %s)" % glist(["(%s, %s)" % (gbytes(k), gz(v)) for k, v in node["names"]])
    ks = "None" if node["kids"] is None else "(Some %s)" % glist([g_nametree(c) for c in node["kids"]])
    return "(NM %s %s %s)" % (lim, nm, ks)


def nametree_cases(ctx, n):
    from pdfminer.pdfdocument import PDFDestinationNotFound
    cases, metas = [], []
    for i in range(n):
        r = ctx.sub("names", i)
        wf = (i % 3) != 2
        family = "nametree" if wf else "nametree-malformed"
        node, entries = gen_nametree(r, wf)
        objs = base_objs()
        nxt = [100]
        objs[1]["Names"] = {"Dests": emit_nametree(node, objs, nxt, r)}
        doc = open_doc(objs)
        probes = [k for k, _ in entries] + [bytes(r.choice(b"abcXYZ\x00\xff19") for _ in range(r.randint(0, 4))) for _ in range(4)]
        obs = []
        for k in probes:
            try:
                v = doc.get_dest(k)
                if v is None:
                    obs.append(CZ(-1))
                else:
                    obs.append(CLs([CZ(v[0] if v else 0)]))
                res = ("found", v[0] if v else 0) if v is not None else ("none",)
            except PDFDestinationNotFound:
                obs.append(CZ(-2))
                res = ("notfound",)
            except BaseException as e:  # noqa
                obs.append(CZ(-9))
                res = ("exc", type(e).__name__)
            if wf:
                want = dict(entries).get(k)
                ok = (res == ("found", want)) if (want is not None and want != 0) else (res[0] in ("notfound",) or
                                                                                       (want == 0 and res[0] in ("notfound", "found")))
                if not ok:
                    ctx.violation(family, {"tree": repr(node), "key": k.hex()}, want, list(res),
                                  "named destination lookup differs from the association the tree defines")
        ctx.case(family, repr(node), nontrivial=node["kids"] is not None,
                 sample={"tree": repr(node)[:300], "probes": [p.hex() for p in probes[:6]]})
        cases.append(("(%s, %s)" % (g_nametree(node), glist([gbytes(k) for k in probes])), CLs(obs)))
        metas.append((family, node, probes))
    bad = common.coq_cases("c17n", ["Model.Labels", "Model.LabelsRun"], "run_lookup", cases, shard=300)
    for i, shown in sorted(bad.items()):
        ctx.disagree(metas[i][0], {"tree": repr(metas[i][1]), "probes": [p.hex() for p in metas[i][2]]}, shown, cases[i][1])


# ------------------------------------------------------------------ outlines
def gen_forest(r, depth, counter):
    out = []
    for _ in range(r.randint(0, 4 if depth else 0) if depth < 3 else 0):
        counter[0] += 1
        me = counter[0]
        out.append({"id": me, "action": r.random() < 0.8, "children": gen_forest(r, depth + 1, counter)})
    return out


def outline_cases(ctx, n):
    cases, metas = [], []
    for i in range(n):
        r = ctx.sub("outline", i)
        counter = [10]
        forest = []
        for _ in range(r.randint(0, 4)):
            counter[0] += 1
            me = counter[0]
            forest.append({"id": me, "action": r.random() < 0.8, "children": gen_forest(r, 1, counter)})
        objs = base_objs()
        store = {}
        drop_last = r.random() < 0.15

        def emit(sibs, parent):
            for j, t in enumerate(sibs):
                d = {"Title": b"T%d" % t["id"], "Parent": Ref(parent)}
                node = {"title": t["id"], "action": t["action"], "first": None, "last": None, "next": None}
                if t["action"]:
                    if r.random() < 0.5:
                        d["Dest"] = [Ref(2), Name("Fit")]
                    else:
                        d["A"] = {"S": Name("GoTo"), "D": [Ref(2), Name("Fit")]}
                if j + 1 < len(sibs):
                    d["Next"] = Ref(sibs[j + 1]["id"])
                    node["next"] = sibs[j + 1]["id"]
                if j > 0:
                    d["Prev"] = Ref(sibs[j - 1]["id"])
                if t["children"]:
                    d["First"] = Ref(t["children"][0]["id"])
                    node["first"] = t["children"][0]["id"]
                    if not (drop_last and r.random() < 0.5):
                        d["Last"] = Ref(t["children"][-1]["id"])
                        node["last"] = t["children"][-1]["id"]
                    emit(t["children"], t["id"])
                objs[t["id"]] = d
                store[t["id"]] = node
        root = {"Type": Name("Outlines")}
        rootnode = {"title": None, "action": False, "first": None, "last": None, "next": None}
        if forest:
            root["First"] = Ref(forest[0]["id"])
            root["Last"] = Ref(forest[-1]["id"])
            rootnode["first"], rootnode["last"] = forest[0]["id"], forest[-1]["id"]
            emit(forest, 5)
        objs[5] = root
        store[5] = rootnode
        objs[1]["Outlines"] = Ref(5)
        doc = open_doc(objs)
        got = [(lvl, int(title[1:])) for (lvl, title, dest, a, se) in doc.get_outlines()]
        # oracle: preorder with levels (only when no Last was dropped)
        if not drop_last:
            want = []

            def walk(sibs, lvl):
                for t in sibs:
                    if t["action"]:
                        want.append((lvl, t["id"]))
                    walk(t["children"], lvl + 1)
            walk(forest, 1)
            if want != got:
                ctx.violation("outline", {"forest": repr(forest)}, want, got, "outline entries are not the preorder with levels")
        ctx.case("outline", repr(forest), nontrivial=any(t["children"] for t in forest),
                 sample={"forest": repr(forest)[:300], "got": got[:8]})
        st = glist(["(%s, mkO %s %s %s %s %s)" % (gz(k), gopt(gz(v["title"]) if v["title"] is not None else None),
                                                gbool(v["action"]), gopt(gz(v["first"]) if v["first"] else None),
                                                gopt(gz(v["last"]) if v["last"] else None),
                                                gopt(gz(v["next"]) if v["next"] else None)) for k, v in sorted(store.items())])
        cases.append(("(%s, 5)" % st, CLs([CLs([CZ(a), CZ(b)]) for a, b in got])))
        metas.append(forest)
    bad = common.coq_cases("c17o", ["Model.Labels", "Model.LabelsRun"], "run_outline", cases, shard=300)
    for i, shown in sorted(bad.items()):
        ctx.disagree("outline", {"forest": repr(metas[i])}, shown, cases[i][1])


# ------------------------------------------------------------------ text strings
UNITS = [0x0041, 0x00e9, 0x0000, 0x2022, 0xd800, 0xdbff, 0xdc00, 0xdfff, 0xfeff, 0xffff, 0xd83d, 0xde00]


def annex_d_table():
    """byte -> character from the reference snapshot of Annex D (glyph names through the Adobe glyph list)"""
    spec = os.path.join(common.VERIF, "spec")
    agl = {}
    for line in open(os.path.join(spec, "agl.txt")):
        k, v = line.rstrip("\n").split(";")
        agl[k] = "".join(chr(int(x, 16)) for x in v.split())
    t = {}
    for line in open(os.path.join(spec, "latin.txt")):
        tab, c, nm = line.split()
        if tab == "pdf" and nm in agl and len(agl[nm]) == 1:
            t[int(c)] = agl[nm]
    return t


def decode_cases(ctx, n):
    from pdfminer.utils import decode_text
    cases = []
    strings = []
    import itertools
    for L in range(0, 4):
        for tup in itertools.product(UNITS[:9], repeat=L):
            s = b"\xfe\xff" + b"".join(u.to_bytes(2, "big") for u in tup)
            strings.append(s)
            strings.append(s + b"\x41")
    for i in range(n):
        r = ctx.sub("decode", i)
        k = r.random()
        if k < 0.4:
            strings.append(bytes(r.randrange(256) for _ in range(r.randint(0, 20))))
        elif k < 0.8:
            strings.append(b"\xfe\xff" + b"".join(r.choice(UNITS).to_bytes(2, "big") for _ in range(r.randint(0, 8)))
                           + (b"\x00" if r.random() < 0.2 else b""))
        else:
            strings.append(b"\xfe\xff" + bytes(r.randrange(256) for _ in range(r.randint(0, 12))))
    # every single byte, alone and inside an ASCII context: PDFDocEncoding is no superset of ASCII (0x18-0x1F are
    # the spacing accents), so an all-ASCII string must still go through the table
    for b in range(256):
        strings.append(bytes([b]))
        strings.append(b"A" + bytes([b]) + b"z")
    for i in range(n // 3):
        r = ctx.sub("decode-ascii", i)
        strings.append(bytes(r.choice([r.randrange(0x18, 0x20), r.randrange(0x20, 0x7f), r.randrange(0, 0x80)]) for _ in range(r.randint(1, 12))))
    annex_d = annex_d_table()
    for s in strings:
        got = decode_text(s)
        if not s.startswith(b"\xfe\xff") and len(got) == len(s):
            for b, ch in zip(s, got):
                if b in annex_d and annex_d[b] != ch:
                    ctx.violation("decode", {"bytes": s.hex(), "byte": b}, annex_d[b], ch, "PDFDocEncoding (ISO 32000-1 Annex D.2): byte decoded to another character")
                    break
        ctx.case("decode", s, nontrivial=any(b >= 0x80 for b in s), sample={"bytes": s.hex(), "text": got})
        # oracle: well-formed UTF-16 decodes as Python's strict codec; BOM-less strings through Annex D
        if s.startswith(b"\xfe\xff"):
            try:
                want = s[2:].decode("utf-16-be")
                if want != got:
                    ctx.violation("decode", {"bytes": s.hex()}, want, got, "well-formed UTF-16BE text string decoded differently")
            except UnicodeDecodeError:
                pass
        cases.append((gbytes(s), CLs([CZ(ord(c)) for c in got])))
    bad = common.coq_cases("c17d", ["Model.Labels", "Model.LabelsRun"], "run_decode", cases, shard=800)
    for i, shown in sorted(bad.items()):
        ctx.disagree("decode", {"bytes": strings[i].hex()}, shown, cases[i][1])


def correspondence(ctx):
    labels_cases(ctx, ctx.n(200, 5000))
    roman_alpha_cases(ctx)
    nametree_cases(ctx, ctx.n(200, 5000))
    outline_cases(ctx, ctx.n(150, 4000))
    decode_cases(ctx, ctx.n(300, 6000))


def oracle(ctx):
    pass


def known_match(finding, item):
    return item.get("kind") == "property" and item.get("family") == finding.get("family")


def confirm_known(ctx, finding):
    from pdfminer.utils import format_int_alpha
    return format_int_alpha(28) != "bb"


def replay(ctx, data):
    item = data.get("violation") or (data.get("correspondence_disagreements") or [None])[0]
    print("replay: re-run ./check C17; stored case:", str(item)[:1500])


if __name__ == "__main__":
    sys.exit(common.main(sys.modules[__name__]))
