#!/usr/bin/env python3
"""C04 -- page tree order, inheritance, rotation/box normalisation, page selection (DESIGN.md section 4, C04)."""
import io
import os
import sys
from fractions import Fraction as Fr

sys.path.insert(0, os.path.dirname(os.path.abspath(__file__)))
import common
from common import CZ, CLs, gz, glist, gopt, gnat, gq, CQ
from pdfwriter import Name, Ref, Stream, write_pdf

PROP = "C04"
GEN = ["gen_page", "gen_geom"]
PROPS_FILE = "theories/Props/C04.v"
COQ_TARGETS = ["theories/Props/C04.vo", "theories/Model/PageRun.vo"]
DRIVER = None
LEVEL = "proof"
RULE = ("random page trees (<=40 nodes, depth<=10, fan-out<=6) and random graphs with repeated kids, cycles, dangling "
        "references, Pages without Kids and untyped nodes; the four inheritable attributes placed at random levels "
        "(direct or indirect values, also in the catalog); Rotate over negative and >360 integers; PDFPage.get_pages "
        "observed (pageid order, MediaBox/CropBox/Rotate/Resources identity) vs Model/PageTree.v dfs evaluated in Coq, "
        "and vs a preorder/nearest-ancestor oracle on honest trees; all page_numbers subsets x maxpages on small "
        "documents vs Model select; ctm and LTPage box vs the generated process_page_ctm/begin_page_box over Q. "
        "Non-trivial: >=2 pages and some inherited attribute; distinct = distinct document.")
TRUSTED = [
    "modelled by hand: depth_first_search and the get_pages loop (Model/PageTree.v), tied by correspondence; generated "
    "from source on every run: process_page's ctm table, begin_page's box, the Rotate normalisation (Gen/PageGeom.v)",
    "PDFDocument/getobj/resolve1 (object loading) is outside this model (C02); interpreter recursion limit not modelled: "
    "a chain of more than ~900 nested /Pages raises RecursionError in the recursive generator",
]
ASSUMPTIONS = ["Kids entries are indirect references (a direct dictionary in Kids has no objid and raises AttributeError)",
               "page_numbers=[] is treated as 'no selection' (the code tests truthiness)"]
MANIFEST_ENTRY = {
    "category": "proof",
    "technique": "Coq proof by induction on page trees / fuel-measure on arbitrary finite graphs for a model of "
                 "depth_first_search; lra/lia on the ctm table and Rotate arithmetic regenerated from source; "
                 "differential runs on generated PDF page trees",
    "text": "Theorems: on every honest tree (any shape/depth, distinct ids) the model of depth_first_search yields the "
            "preorder pages with own-else-nearest-ancestor attributes; on EVERY finite store (cycles, shared kids, dangling "
            "references) it terminates within |store|+2 nested calls and yields each id at most once; the selection loop "
            "equals the index filter for all page lists/pagenos/maxpages; Rotate normalisation lands in 0..359 congruent "
            "mod 360 for every integer; for each of the four rotations the generated ctm maps the MediaBox onto "
            "(0,0,W,H) resp. (0,0,H,W) with the lower-left corner going where a clockwise turn puts it.",
    "note": "Trusted: Coq kernel, translator, hand model of the DFS/selection tied by differential runs on generated PDFs, "
            "harness PDF writer. Recursion limit and object loading outside the model.",
    "design_ref": "DESIGN.md section 4, C04",
}

ATTR_KEYS = ["Resources", "MediaBox", "CropBox", "Rotate"]
ROTS = [0, 90, 180, 270, -90, 450, 720, -270, 360, 45, 1, -1, 359, -360, 100000]


def gen_doc(r, honest):
    """returns (objects, root, nodes, catalog_attrs) with nodes = {id: (type, kids or None, own attrs dict)}"""
    n = r.randint(1, 40 if r.random() < 0.3 else 12)
    ids = list(range(3, 3 + n))
    nodes = {}
    # build a tree over ids[0] as root
    root = ids[0]
    children = {i: [] for i in ids}
    is_pages = {root: True}
    for i in ids[1:]:
        cands = [p for p in ids if p < i and is_pages.get(p) and len(children[p]) < 6]
        p = r.choice(cands) if cands else root
        children[p].append(i)
        is_pages[i] = r.random() < 0.35
    val = [0]

    def own_attrs():
        a = {}
        for k in ATTR_KEYS:
            if r.random() < 0.3:
                val[0] += 1
                a[k] = r.choice(ROTS) if k == "Rotate" else val[0] % 40
        return a
    for i in ids:
        if is_pages.get(i):
            nodes[i] = ["Pages", list(children[i]), own_attrs()]
        else:
            nodes[i] = ["Page", None, own_attrs()]
    if n == 1:
        nodes[root] = ["Pages", [], own_attrs()]
    catalog_attrs = own_attrs() if r.random() < 0.2 else {}
    if not honest:
        for _ in range(r.randint(1, 4)):
            k = r.random()
            p = r.choice([i for i in ids if nodes[i][0] == "Pages"] or [root])
            if nodes[p][1] is None:
                nodes[p][1] = []
            if k < 0.3:
                nodes[p][1].append(r.choice(ids))                    # repeated node / cycle / self
            elif k < 0.5:
                nodes[p][1].insert(r.randint(0, len(nodes[p][1])), 900 + r.randint(0, 3))   # dangling
            elif k < 0.65:
                nodes[p][1] = None                                    # Pages without Kids
            elif k < 0.8:
                q = r.choice(ids)
                nodes[q][0] = r.choice(["Other", None])
            else:
                q = r.choice([i for i in ids if nodes[i][0] == "Page"] or ids)
                nodes[q][1] = [r.choice(ids)]                         # a Page that also has Kids
    objs = {}
    nxt = [1000]

    def maybe_indirect(v):
        if r.random() < 0.4:
            nxt[0] += 1
            objs[nxt[0]] = v
            return Ref(nxt[0])
        return v

    def attr_values(a):
        d = {}
        if "Resources" in a:
            d["Resources"] = maybe_indirect({"ProcSet": [Name("PDF")], "V": a["Resources"]})
        if "MediaBox" in a:
            d["MediaBox"] = maybe_indirect([0, 0, maybe_indirect(100 + a["MediaBox"]), 200 + a["MediaBox"]])
        if "CropBox" in a:
            d["CropBox"] = maybe_indirect([1, 1, 50 + a["CropBox"], 60 + a["CropBox"]])
        if "Rotate" in a:
            d["Rotate"] = maybe_indirect(a["Rotate"])
        return d
    for i in ids:
        t, kids, a = nodes[i]
        d = {}
        if t is not None:
            d["Type"] = Name(t if t != "Other" else "Foo")
        if kids is not None:
            d["Kids"] = maybe_indirect([Ref(k) for k in kids])
        d.update(attr_values(a))
        objs[i] = d
    cat = {"Type": Name("Catalog"), "Pages": Ref(root)}
    cat.update(attr_values(catalog_attrs))
    objs[1] = cat
    return objs, root, nodes, catalog_attrs


def observe_pages(data, **kw):
    from pdfminer.pdfpage import PDFPage
    out = []
    for p in PDFPage.get_pages(io.BytesIO(data), **kw):
        res = p.resources.get("V") if isinstance(p.resources, dict) else None
        mb = p.mediabox[2] - 100 if p.mediabox[2] != 612.0 else None
        cb = p.cropbox[2] - 50 if p.cropbox[2] < 100 else None
        out.append((p.pageid, res, None if mb is None else int(mb), None if cb is None else int(cb), p.rotate))
    return out


def canon_obs(obs, with_rotate_attr):
    items = []
    for pid, res, mb, cb, rot in obs:
        def o(x):
            return CLs([]) if x is None else CLs([CZ(x)])
        items.append(CLs([CZ(pid), o(res), o(mb), o(cb), CZ(rot)]))
    return CLs(items)


def g_attrs(a):
    return glist([gopt(gz(a[k]) if k in a else None) for k in ATTR_KEYS])


def g_store(nodes):
    items = []
    for i, (t, kids, a) in sorted(nodes.items()):
        ty = {"Page": "NPage", "Pages": "NPages"}.get(t, "NOther")
        ks = "None" if kids is None else "(Some %s)" % glist([gz(k) for k in kids])
        items.append("(%s, mkNode %s %s %s)" % (gz(i), ty, ks, g_attrs(a)))
    return glist(items)


def spec_oracle(nodes, root, catalog_attrs):
    """preorder with nearest-ancestor inheritance, written independently of the model (honest trees only)"""
    out = []

    def walk(i, inh):
        t, kids, a = nodes[i]
        cur = dict(inh)
        cur.update(a)
        if t == "Pages":
            for k in kids or []:
                walk(k, cur)
        elif t == "Page":
            rot = (cur.get("Rotate", 0) % 360 + 360) % 360
            out.append((i, cur.get("Resources"), cur.get("MediaBox"), cur.get("CropBox"), rot))
    walk(root, {k: v for k, v in catalog_attrs.items()})
    return out


def tree_cases(ctx, n):
    cases, metas = [], []
    for i in range(n):
        r = ctx.sub("tree", i)
        honest = r.random() < 0.5
        objs, root, nodes, cat = gen_doc(r, honest)
        data = write_pdf(objs, 1)
        try:
            obs = observe_pages(data)
        except BaseException as e:  # noqa
            ctx.violation("graph" if not honest else "tree", {"pdf": data.hex()}, "pages or a library error",
                          repr(e)[:200], "page enumeration raised %s" % type(e).__name__)
            continue
        fam = "tree" if honest else "graph"
        ctx.case(fam, data, nontrivial=len(obs) >= 2 and any(len(a) > 0 for _, _, a in nodes.values()),
                 sample={"nodes": {k: [v[0], v[1], v[2]] for k, v in list(nodes.items())[:8]}, "pages": obs[:6]})
        pids = [o[0] for o in obs]
        if len(set(pids)) != len(pids):
            ctx.violation(fam, {"pdf": data.hex()}, "each page id at most once", pids, "a node was visited twice")
        if honest:
            want = spec_oracle(nodes, root, cat)
            if want != obs:
                ctx.violation(fam, {"pdf": data.hex()}, want, obs,
                              "pages are not the preorder leaves with nearest-ancestor attributes / Rotate mod 360")
        cases.append(("(%s, %s, %s)" % (g_store(nodes), gz(root), g_attrs(cat)), canon_obs(obs, True)))
        metas.append((fam, data, obs))
    bad = common.coq_cases("c04t", ["Model.PageTree", "Model.PageRun"], "run_pages", cases, shard=300)
    for i, shown in sorted(bad.items()):
        fam, data, obs = metas[i]
        ctx.disagree(fam, {"pdf": data.hex()}, shown, obs)


def select_cases(ctx, n):
    cases, metas = [], []
    for i in range(n):
        r = ctx.sub("select", i)
        npages = r.randint(0, 7)
        objs = {1: {"Type": Name("Catalog"), "Pages": Ref(2)},
                2: {"Type": Name("Pages"), "Kids": [Ref(10 + k) for k in range(npages)], "Count": npages}}
        for k in range(npages):
            objs[10 + k] = {"Type": Name("Page"), "Parent": Ref(2), "MediaBox": [0, 0, 100, 100]}
        data = write_pdf(objs, 1)
        allids = [10 + k for k in range(npages)]
        for _ in range(6):
            sel = sorted(set(r.randint(0, npages + 1) for _ in range(r.randint(0, 4))))
            mx = r.randint(0, npages + 2)
            form = r.choice(["set", "list", "none"]) if sel else r.choice(["none", "empty"])
            pn = {"set": set(sel), "list": list(sel), "none": None, "empty": []}[form]
            eff = sel if form in ("set", "list") else []
            got = [o[0] for o in observe_pages(data, pagenos=pn, maxpages=mx)]
            want = [p for idx, p in enumerate(allids) if (not eff or idx in eff) and (mx == 0 or idx < mx)]
            ctx.case("select", (npages, tuple(eff), mx), nontrivial=bool(eff) and mx > 0,
                     sample={"pages": npages, "page_numbers": eff, "maxpages": mx, "got": got})
            if got != want:
                ctx.violation("select", {"pages": npages, "page_numbers": eff, "maxpages": mx}, want, got,
                              "selection is not {i in page_numbers, i < maxpages}")
            cases.append(("(%s, %s, %s)" % (glist([gz(x) for x in allids]), glist([gnat(x) for x in eff]), gnat(mx)),
                          CLs([CZ(x) for x in got])))
            metas.append((npages, eff, mx, got))
    bad = common.coq_cases("c04s", ["Model.PageTree", "Model.PageRun"], "run_select", cases, shard=600)
    for i, shown in sorted(bad.items()):
        ctx.disagree("select", {"pages": metas[i][0], "page_numbers": metas[i][1], "maxpages": metas[i][2]},
                     shown, metas[i][3])


def ctm_cases(ctx, n):
    from pdfminer.converter import PDFPageAggregator
    from pdfminer.pdfinterp import PDFPageInterpreter, PDFResourceManager
    from pdfminer.pdfpage import PDFPage
    cases, metas = [], []
    for i in range(n):
        r = ctx.sub("ctm", i)
        x0, y0 = Fr(r.randint(-400, 400), r.choice([1, 2, 4])), Fr(r.randint(-400, 400), r.choice([1, 2, 4]))
        w, h = Fr(r.randint(1, 4000), r.choice([1, 2, 8])), Fr(r.randint(1, 4000), r.choice([1, 2, 8]))
        rot = r.choice(ROTS)
        objs = {1: {"Type": Name("Catalog"), "Pages": Ref(2)},
                2: {"Type": Name("Pages"), "Kids": [Ref(3)], "Count": 1},
                3: {"Type": Name("Page"), "Parent": Ref(2), "MediaBox": [x0, y0, x0 + w, y0 + h], "Rotate": rot}}
        data = write_pdf(objs, 1)
        seen = {}

        class Dev(PDFPageAggregator):
            def begin_page(self, page, ctm):
                seen["ctm"] = ctm
                PDFPageAggregator.begin_page(self, page, ctm)
        rm = PDFResourceManager()
        dev = Dev(rm)
        it = PDFPageInterpreter(rm, dev)
        for p in PDFPage.get_pages(io.BytesIO(data)):
            it.process_page(p)
        bbox = dev.get_result().bbox
        rn = (rot + 360) % 360
        ctx.case("ctm", (x0, y0, w, h, rot), nontrivial=rn in (90, 180, 270) and (x0 != 0 or y0 != 0),
                 sample={"mediabox": [str(x0), str(y0), str(x0 + w), str(y0 + h)], "rotate": rot,
                         "ctm": [str(c) for c in seen["ctm"]], "bbox": list(bbox)})
        # oracle: box (0,0,W,H) or (0,0,H,W); lower-left corner where a clockwise turn puts it
        from pdfminer.utils import apply_matrix_pt
        W, H = (w, h) if rn not in (90, 270) else (h, w)
        ll = apply_matrix_pt(seen["ctm"], (float(x0), float(y0)))
        want_ll = {0: (0, 0), 90: (0, float(w)), 180: (float(w), float(h)), 270: (float(h), 0)}.get(rn, (0, 0))
        if tuple(bbox) != (0, 0, float(W), float(H)) or tuple(ll) != want_ll:
            ctx.violation("ctm", {"mediabox": [str(x0), str(y0), str(x0 + w), str(y0 + h)], "rotate": rot},
                          [[0, 0, float(W), float(H)], list(want_ll)], [list(bbox), list(ll)],
                          "MediaBox does not land on the origin box turned clockwise by Rotate")
        want = CLs([CLs([CQ(Fr(c)) for c in seen["ctm"]]), CLs([CQ(Fr(c)) for c in bbox]), CZ(rn)])
        cases.append(("(%s, %s, %s, %s, %s)" % (gq(x0), gq(y0), gq(x0 + w), gq(y0 + h), gz(rot)), want))
        metas.append((x0, y0, w, h, rot, seen["ctm"], bbox))
    bad = common.coq_cases("c04c", ["Model.PageTree", "Model.PageRun"], "run_ctm", cases, shard=400)
    for i, shown in sorted(bad.items()):
        ctx.disagree("ctm", {"case": [str(x) for x in metas[i][:5]]}, shown, [str(x) for x in metas[i][5:]])


def correspondence(ctx):
    tree_cases(ctx, ctx.n(300, 8000))
    select_cases(ctx, ctx.n(60, 1500))
    ctm_cases(ctx, ctx.n(150, 3000))


def oracle(ctx):
    pass     # the oracles run on the same generated documents inside correspondence


def replay(ctx, data):
    item = data.get("violation") or (data.get("correspondence_disagreements") or [None])[0]
    if not item:
        print("nothing to replay; no longer checks:", data.get("no_longer_checks"))
        return
    inp = item["input"]
    if "pdf" in inp:
        raw = bytes.fromhex(inp["pdf"])
        obs = observe_pages(raw)
        print("pages:", obs)
        if item.get("kind") == "property" and item.get("expected") != obs and isinstance(item.get("expected"), list):
            ctx.violation("replay", inp, item["expected"], obs, item.get("what", ""))
    elif "page_numbers" in inp:
        npages = inp["pages"]
        objs = {1: {"Type": Name("Catalog"), "Pages": Ref(2)},
                2: {"Type": Name("Pages"), "Kids": [Ref(10 + k) for k in range(npages)], "Count": npages}}
        for k in range(npages):
            objs[10 + k] = {"Type": Name("Page"), "Parent": Ref(2), "MediaBox": [0, 0, 100, 100]}
        got = [o[0] for o in observe_pages(write_pdf(objs, 1), pagenos=inp["page_numbers"] or None,
                                           maxpages=inp["maxpages"])]
        want = [10 + i for i in range(npages) if (not inp["page_numbers"] or i in inp["page_numbers"])
                and (inp["maxpages"] == 0 or i < inp["maxpages"])]
        print("got", got, "want", want)
        if got != want:
            ctx.violation("replay", inp, want, got, "selection is not {i in page_numbers, i < maxpages}")
    else:
        print("re-run the check to replay ctm cases:", inp)


if __name__ == "__main__":
    sys.exit(common.main(sys.modules[__name__]))
