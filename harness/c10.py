#!/usr/bin/env python3
"""C10 -- decryption: either password opens the document to exactly the original content (DESIGN.md section 4, C10)."""
import io
import os
import stringprep
import sys
import unicodedata
import zlib

sys.path.insert(0, os.path.dirname(os.path.abspath(__file__)))
import common
from common import CZ, CBy, CLs, gz, glist, gbytes, gbool
from pdfwriter import Name, Ref, Stream, write_history
import pdfcrypt

PROP = "C10"
GEN = []
PROPS_FILE = "theories/Props/C10.v"
COQ_TARGETS = ["theories/Props/C10.vo", "theories/Model/CryptRun.vo"]
DRIVER = None
LEVEL = "proof"
RULE = ("documents written by the harness's own encryptor (ISO 32000-1 Algorithms 1-7, ISO 32000-2 2.A/2.B/8-10): V1/R2 "
        "40-bit, V2/R3 40..128-bit, V4/R4 with V2 or AESV2 (StmF/StrF equal or one Identity), V5/R5 and V5/R6 AESV3; "
        "EncryptMetadata true/false, random P, random ID, user/owner passwords empty / long (> 32, > 127 bytes) / "
        "Latin-1 / Unicode needing SASLprep; classic, xref-stream and hybrid files with object streams; strings in "
        "dictionaries, arrays, stream dictionaries and packed objects, streams incl. Flate and Metadata; large object "
        "numbers and non-zero generations for the per-object key; opened with user, owner and wrong passwords; every "
        "string/stream compared with the original, permissions with P, extracted text with the plain twin. "
        "Model-vs-implementation with hash/cipher calls recorded around hashlib and cryptography. "
        "Revision-6 password hash: _r6_password on random passwords (0..127 bytes), salts and vectors against Model/CryptR6.v "
        "(tables of its SHA-256/384/512 and AES-CBC calls, answer and number of rounds) and, on 400 / 8000 inputs, against the "
        "reference Algorithm 2.B. "
        "Non-trivial: owner password differs from user password / object stream present.")
TRUSTED = [
    "modelled by hand: Arcfour, PDFStandardSecurityHandler (init_params, compute_encryption_key, compute_u, "
    "verify_encryption_key, authenticate_*), V4 decrypt_aes128 + _unpad, V5 authenticate / decrypt_aes256, permission "
    "bits (Model/Crypt.v), the revision-6 hash loop _r6_password with _bytes_mod_3 (Model/CryptR6.v); MD5, SHA-2 and AES "
    "(and, in the V5 authentication theorems, the password hash as a whole) are parameters of the model, instantiated in the "
    "correspondence runs by tables of the calls pdfminer made (recorded by wrapping pdfdocument.md5, "
    "_password_hash and Cipher in the harness process; no change to the repository)",
    "not modelled in Coq: where decryption is applied while loading objects (getobj/decipher_all/PDFStream.decode), "
    "SASLprep; both are checked end to end against the original documents by the harness's independent encryptor",
    "hashlib and the `cryptography` package are the primitives of both pdfminer and the reference encryptor",
]
ASSUMPTIONS = ["wrong passwords are rejected up to hash collisions (16 or 32 bytes); tested, not provable"]
MANIFEST_ENTRY = {
    "category": "proof",
    "technique": "Coq proofs with the hash functions and the block cipher as universally quantified parameters (RC4 "
                 "involution for every key, cancellation of the 20 key-xor rounds by induction, Algorithm 7 inverts "
                 "Algorithm 3, both passwords derive the same key, CBC round trip for any invertible block cipher, "
                 "padding removal, permission bits via Z.testbit; Algorithm 2.B: fuel bound 289 by a measure on the round number "
                 "since a byte is at most 255, equality with the ISO formulation 'first round m >= 64 with last byte <= m - 32' by "
                 "induction over the rounds, selector = big-endian number mod 3 by induction on the bytes) + differential runs with recorded oracle tables and an "
                 "independent encryptor",
    "text": "Theorems: rc4 k (rc4 k d) = d; per-object RC4 round trip; owner_recover(O from Algorithm 3) = padded user "
            "password for R2 and R3/4; user and owner password authenticate to the same file key whenever O and U were "
            "written by Algorithms 3-5, for every hash function; acceptance implies Algorithm 6; CBC decrypt . encrypt = id "
            "for every invertible block cipher; unpad(pad d) = d for every length; AES object decryption = original; R5/R6 "
            "owner-then-user order; the revision-6 hash loop terminates for every hash/cipher after 64..288 rounds and returns "
            "K_m[:32] for the first round m >= 64 whose E ends in a byte <= m - 32, its selector is E[:16] as a big-endian "
            "number mod 3; permission bits equal bits 3-5 of the stored signed P. Not provable: rejection of wrong "
            "passwords (collision resistance) -- tested.",
    "note": "Trusted: Coq kernel, hashlib/cryptography primitives, the harness encryptor written from the ISO algorithms.",
    "design_ref": "DESIGN.md section 4, C10",
}


# ------------------------------------------------------------------ SASLprep (RFC 4013), independent of pdfminer
def saslprep(s):
    out = []
    for c in s:
        if stringprep.in_table_b1(c):
            continue
        out.append(" " if stringprep.in_table_c12(c) else c)
    s = unicodedata.normalize("NFKC", "".join(out))
    return s


# ------------------------------------------------------------------ recording wrappers
class Rec:
    def __init__(self):
        self.md5, self.cbc, self.pwhash = {}, [], []


def install(rec):
    import pdfminer.pdfdocument as pd
    saved = (pd.md5, pd.Cipher, pd.PDFStandardSecurityHandlerV5._password_hash)
    real_md5, real_cipher, real_ph = saved

    class H:
        def __init__(self, data=b""):
            self.buf = bytes(data)

        def update(self, d):
            self.buf += bytes(d)

        def digest(self):
            d = real_md5(self.buf).digest()
            rec.md5[self.buf] = d
            return d

    class C:
        def __init__(self, algo, mode, backend=None):
            self.c = real_cipher(algo, mode)
            self.key, self.iv = algo.key, mode.initialization_vector

        def decryptor(self):
            d = self.c.decryptor()
            outer = self

            class D:
                def update(self, ct):
                    pt = d.update(ct)
                    rec.cbc.append((outer.key, outer.iv, bytes(ct), pt))
                    return pt
            return D()

        def encryptor(self):
            return self.c.encryptor()

    def ph(self, password, salt, vector=None):
        h = real_ph(self, password, salt, vector)
        rec.pwhash.append((bytes(password), bytes(salt), bytes(vector or b""), h))
        return h
    pd.md5, pd.Cipher, pd.PDFStandardSecurityHandlerV5._password_hash = H, C, ph
    return saved


def uninstall(saved):
    import pdfminer.pdfdocument as pd
    pd.md5, pd.Cipher, pd.PDFStandardSecurityHandlerV5._password_hash = saved


EMPTY_TABLE = "(@nil (list Z * list Z))"


def gtable(pairs):
    pairs = list(pairs)
    if not pairs:
        return EMPTY_TABLE
    return glist(["(%s, %s)" % (gbytes(k), gbytes(v)) for k, v in pairs])


SEP = "[-1]"


# ------------------------------------------------------------------ RC4
def rc4_cases(ctx, n):
    from pdfminer.arcfour import Arcfour
    cases = []
    vectors = [(b"Key", b"Plaintext", "bbf316e8d940af0ad3"), (b"Wiki", b"pedia", "1021bf0420"), (b"Secret", b"Attack at dawn", "45a01f645fc35b383552544b9bf5")]
    for k, d, want in vectors:
        got = Arcfour(k).process(d)
        ctx.case("rc4", (k, d), nontrivial=True, sample={"key": k.hex(), "data": d.hex(), "out": got.hex()})
        if got.hex() != want:
            ctx.violation("rc4", {"key": k.hex(), "data": d.hex()}, want, got.hex(), "RC4 test vector")
        cases.append(("(%s, %s)" % (gbytes(k), gbytes(d)), CBy(got)))
    for i in range(n):
        r = ctx.sub("rc4", i)
        k = bytes(r.randrange(256) for _ in range(r.choice([1, 5, 5, 10, 16, 16, 21, 32])))
        d = bytes(r.randrange(256) for _ in range(r.randint(0, 48)))
        got = Arcfour(k).process(d)
        ctx.case("rc4", (k, d), nontrivial=len(d) > 0)
        if got != pdfcrypt.rc4(k, d) or Arcfour(k).process(got) != d:
            ctx.violation("rc4", {"key": k.hex(), "data": d.hex()}, pdfcrypt.rc4(k, d).hex(), got.hex(), "RC4 differs from the reference / is not an involution")
        cases.append(("(%s, %s)" % (gbytes(k), gbytes(d)), CBy(got)))
    bad = common.coq_cases("c10r", ["Model.Crypt", "Model.CryptRun"], "run_rc4", cases, shard=25)
    for i, shown in sorted(bad.items()):
        ctx.disagree("rc4", {"case": cases[i][0]}, shown, cases[i][1])


# ------------------------------------------------------------------ documents
CONFIGS = [(1, 2, 40, None), (2, 3, 40, None), (2, 3, 56, None), (2, 3, 128, None), (4, 4, 128, "V2"), (4, 4, 128, "AESV2"),
           (5, 5, 256, "AESV3"), (5, 6, 256, "AESV3")]
PW_LATIN = ["", "user", "p\xe9ss", "a" * 31, "b" * 32, "c" * 40, "x y", "\xa0\xff"]
PW_UNI = ["", "user", "p\xe9ss", "пароль", "ｐａｓｓ", "a­b", "x y", "密碼" * 30, "\U0001f511key", "Å"]


def gen_doc(r, cfg, i):
    v, rev, length, cfm = cfg
    uni = rev >= 5
    user_s = r.choice(PW_UNI if uni else PW_LATIN)
    owner_s = r.choice(PW_UNI if uni else PW_LATIN)
    if owner_s == user_s and r.random() < 0.7:
        owner_s = owner_s + "O"
    if owner_s == "":
        owner_s = user_s                 # no owner password: the user password takes its place (Algorithm 3, step a)
    if rev == 6:
        user_b, owner_b = saslprep(user_s).encode("utf-8"), saslprep(owner_s).encode("utf-8")
    elif rev == 5:
        user_b, owner_b = user_s.encode("utf-8"), owner_s.encode("utf-8")
    else:
        user_b, owner_b = user_s.encode("latin-1"), owner_s.encode("latin-1")
    p = (0xFFFFF0C0 | r.choice([0, 4, 8, 16, 4 | 16, 0x3C, 0xF3C & 0xF3C])) | (r.randrange(16) << 8)
    p &= 0xFFFFFFFF
    docid = bytes(r.randrange(256) for _ in range(r.choice([16, 16, 0, 7])))
    em = r.random() < 0.6 if v >= 4 else True
    stmf = strf = "StdCF"
    if v >= 4 and r.random() < 0.25:
        if r.random() < 0.5:
            strf = "Identity"
        else:
            stmf = "Identity"
    enc = pdfcrypt.Enc(v, rev, length, user_b, owner_b, p, docid, em, cfm, r, stmf=stmf, strf=strf)
    text = "Secret %d text" % i
    content = ("BT /F1 12 Tf 72 700 Td (%s) Tj ET" % text).encode()
    big = r.choice([10, 77, 300, 70000, 2 ** 24 + 5])
    defs = {
        1: {"Type": Name("Catalog"), "Pages": Ref(2), "Note": b"hello world", "Arr": [b"x", {"K": bytes(r.randrange(256) for _ in range(16))}],
            "Empty": b"", "Packed": Ref(5), "Meta": Ref(8), "Big": Ref(big)},
        2: {"Type": Name("Pages"), "Kids": [Ref(3)], "Count": 1},
        3: {"Type": Name("Page"), "Parent": Ref(2), "MediaBox": [0, 0, 612, 792], "Contents": Ref(4),
            "Resources": {"Font": {"F1": {"Type": Name("Font"), "Subtype": Name("Type1"), "BaseFont": Name("Helvetica")}}}},
        4: Stream({"Filter": Name("FlateDecode"), "Tag": b"in a stream dictionary"}, zlib.compress(content)),
        5: {"S": b"packed string " + bytes(r.randrange(256) for _ in range(r.randint(0, 20))), "A": [b"", b"\x00\x01"]},
        6: {"Title": bytes(r.randrange(256) for _ in range(r.randint(1, 33)))},
        8: Stream({"Type": Name("Metadata"), "Subtype": Name("XML")}, b"<x:xmpmeta>meta %d</x:xmpmeta>" % i),
        big: Stream({}, bytes(r.randrange(256) for _ in range(r.choice([0, 1, 15, 16, 17, 100])))),
        9: None,
    }
    form = r.choice(["table", "stream", "hybrid"])
    packed = {5, 6} if form != "table" else set()
    return dict(cfg=cfg, enc=enc, defs=defs, form=form, packed=packed, user=user_s, owner=owner_s, p=p, em=em, text=text,
                docid=docid, stmf=stmf, strf=strf, big=big)


def build(d, r, encrypted=True):
    defs = dict(d["defs"])
    enc = d["enc"]
    if encrypted:
        defs[9] = enc.encrypt_dict()
        revs = [{"defs": defs, "form": d["form"], "packed": d["packed"], "root": 1, "info": 6}]
        pdf, _, _ = write_history(revs, r, encrypt=lambda n, val: val if n == 9 else pdfcrypt.encrypt_value(enc, n, 0, val),
                                  trailer_extra={"Encrypt": Ref(9), "ID": [d["docid"], d["docid"]]})
    else:
        del defs[9]
        revs = [{"defs": defs, "form": d["form"], "packed": d["packed"], "root": 1, "info": 6}]
        pdf, _, _ = write_history(revs, r)
    return pdf


def snapshot(doc, d):
    """every string and stream of the document, resolved"""
    from pdfminer.pdftypes import PDFStream, resolve1

    def val(x):
        x = resolve1(x)
        if isinstance(x, PDFStream):
            return ("stream", {k: val(v) for k, v in x.attrs.items() if k not in ("Length",)}, x.get_data())
        if isinstance(x, dict):
            return {k: val(v) for k, v in x.items() if k not in ("Parent", "Pages", "Kids", "Contents")}
        if isinstance(x, list):
            return [val(v) for v in x]
        if hasattr(x, "name"):
            return "/" + str(x.name)
        return x
    return {n: val(doc.getobj(n)) for n in (1, 3, 4, 5, 6, 8, d["big"])}


def docs_cases(ctx, n):
    from pdfminer.pdfparser import PDFParser
    from pdfminer.pdfdocument import PDFDocument, PDFPasswordIncorrect
    from pdfminer.high_level import extract_text
    auth_cases, auth_meta, auth5_cases, auth5_meta, dec_cases, dec_meta, perm_cases = [], [], [], [], [], [], []
    for i in range(n):
        r = ctx.sub("doc", i)
        cfg = CONFIGS[i % len(CONFIGS)]
        d = gen_doc(r, cfg, i)
        v, rev, length, cfm = cfg
        fam = "doc-V%dR%d-%s" % (v, rev, cfm or "RC4")
        plain = build(d, ctx.sub("docw", i), False)
        pdf = build(d, ctx.sub("docw", i), True)
        want = snapshot(PDFDocument(PDFParser(io.BytesIO(plain))), d)
        want_text = extract_text(io.BytesIO(plain))
        tries = [("user", d["user"]), ("owner", d["owner"]), ("wrong", d["user"] + "x"), ("wrong", r.choice(["zzz", "пароль", "é", "a" * 200]))]
        if rev == 6:
            tries.append(("user", d["user"].replace("ｐａｓｓ", "pass").replace("­", "").replace(" ", " ")))
        if rev <= 4 and len(d["user"]) > 32:
            tries.append(("user", d["user"][:32] + "tail ignored"))
        for role, pw in tries:
            if role == "wrong" and pw in (d["user"], d["owner"]):
                continue
            if role == "wrong" and rev <= 4 and (pw[:32] in (d["user"][:32], d["owner"][:32])):
                continue
            if role == "wrong" and rev == 6 and saslprep(pw) in (saslprep(d["user"]), saslprep(d["owner"])):
                continue
            if role == "wrong" and rev >= 5 and saslprep(pw).encode("utf-8")[:127] in (
                    saslprep(d["user"]).encode("utf-8")[:127], saslprep(d["owner"]).encode("utf-8")[:127],
                    d["user"].encode("utf-8")[:127], d["owner"].encode("utf-8")[:127]):
                continue                 # only the first 127 bytes of the UTF-8 password count
            rec = Rec()
            saved = install(rec)
            doc = None
            handler = None
            try:
                try:
                    doc = PDFDocument(PDFParser(io.BytesIO(pdf)), pw)
                    outcome = "ok"
                    handler = doc.decipher.__self__
                    got = snapshot(doc, d)
                    perms = (doc.is_printable, doc.is_modifiable, doc.is_extractable)
                except PDFPasswordIncorrect:
                    outcome = "incorrect"
                except BaseException as e:  # noqa
                    outcome = type(e).__name__ + ": " + str(e)[:120]
            finally:
                uninstall(saved)
            inp = {"config": list(cfg), "form": d["form"], "user": d["user"], "owner": d["owner"], "password": pw, "role": role,
                   "stmf": d["stmf"], "strf": d["strf"], "em": d["em"], "pdf": pdf.hex()}
            ctx.case(fam, (i, role, pw), nontrivial=d["user"] != d["owner"] or bool(d["packed"]),
                     sample={"config": list(cfg), "form": d["form"], "role": role, "outcome": outcome})
            if role == "wrong":
                if outcome != "incorrect":
                    ctx.violation(fam, inp, "PDFPasswordIncorrect", outcome, "a wrong password was not rejected with the password-incorrect error")
            else:
                if outcome != "ok":
                    ctx.violation(fam, inp, "document opens", outcome, "the %s password does not open the document" % role)
                else:
                    if got != want:
                        diff = [k for k in want if got.get(k) != want[k]]
                        ctx.violation(fam, dict(inp, objects=diff), repr({k: want[k] for k in diff})[:400], repr({k: got.get(k) for k in diff})[:400],
                                      "decrypted strings/streams differ from the original")
                    wp = (bool(d["p"] & 4), bool(d["p"] & 8), bool(d["p"] & 16))
                    if perms != wp:
                        ctx.violation(fam, inp, wp, perms, "permissions differ from the stored P")
                    try:
                        t = extract_text(io.BytesIO(pdf), password=pw)
                    except BaseException as e:  # noqa
                        t = type(e).__name__
                    if t != want_text:
                        ctx.violation(fam, inp, want_text, t, "extracted text differs from the unencrypted twin")
            # ---- model vs implementation on the recorded oracle calls
            enc = d["enc"]
            if rev <= 4:
                try:
                    pwb = pw.encode("latin-1")
                except UnicodeEncodeError:
                    pwb = None
                if pwb is not None and outcome in ("ok", "incorrect"):
                    key = handler.key if outcome == "ok" else None
                    pstored = d["p"] if d["p"] < 2 ** 31 else d["p"] - 2 ** 32
                    auth_cases.append(("(%s, (%d, %d, %s, %s, %s, %s, %s), %s)" % (
                        gtable(list(rec.md5.items()) + [kv for kv in enc.rec.md5.items() if kv[0] not in rec.md5]), rev, 128 if v == 4 else length, gz(pstored), gbytes(enc.o), gbytes(enc.u),
                        gbytes(d["docid"]), gbool(d["em"]), gbytes(pwb)), CLs([]) if key is None else CLs([CBy(key)])))
                    auth_meta.append(inp)
            elif outcome in ("ok", "incorrect") and rec.pwhash:
                pwb = rec.pwhash[0][0]
                key = handler.key if outcome == "ok" else None
                ht = [(list(a) + [-1] + list(b) + [-1] + list(c), h) for a, b, c, h in rec.pwhash]
                ct = [(list(k) + [-1] + list(c), p_) for k, iv, c, p_ in rec.cbc if iv == b"\0" * 16 and c in (enc.oe, enc.ue)]
                auth5_cases.append(("(%s, %s, (%s, %s, %s, %s), %s)" % (
                    gmixed(ht), gmixed(ct), gbytes(enc.o), gbytes(enc.u), gbytes(enc.oe), gbytes(enc.ue), gbytes(pwb)),
                    CLs([]) if key is None else CLs([CBy(key)])))
                auth5_meta.append(inp)
            if outcome == "ok" and role == "user":
                # direct decryption of fresh ciphertexts, incl. large object numbers and generations
                for _ in range(3):
                    objid = r.choice([1, 7, 255, 256, 65536, 2 ** 24 - 1, 2 ** 24 + 3, 2 ** 31 - 1])
                    genno = r.choice([0, 0, 1, 255, 256, 65535, 65536 + 2])
                    data = bytes(r.randrange(256) for _ in range(r.choice([1, 15, 16, 17, 32, 40])))
                    is_stream = r.random() < 0.5
                    m = enc.method(is_stream)
                    if m == "Identity":
                        continue
                    ctext = rc4_or_aes(enc, objid, genno, data, is_stream)
                    rec2 = Rec()
                    saved = install(rec2)
                    try:
                        out = handler.decrypt(objid, genno, ctext, {} if is_stream else None)
                    except BaseException as e:  # noqa
                        out = None
                        ctx.violation(fam, dict(inp, objid=objid, genno=genno), data.hex(), type(e).__name__, "decrypt raised")
                    finally:
                        uninstall(saved)
                    if out is None:
                        continue
                    if out != data:
                        ctx.violation(fam, dict(inp, objid=objid, genno=genno, data=data.hex()), data.hex(), out.hex(),
                                      "object %d generation %d does not decrypt to the original" % (objid, genno))
                    cbc = [(list(k) + [-1] + list(iv) + [-1] + list(c), p_) for k, iv, c, p_ in rec2.cbc]
                    dec_cases.append(("(%s, %s, %d, %s, %d, %d, %s)" % (gtable(rec2.md5.items()), gmixed(cbc), {"V2": 0, "AESV2": 1, "AESV3": 2}[m],
                                                                       gbytes(handler.key), objid, genno, gbytes(ctext)), CBy(out)))
                    dec_meta.append(dict(inp, objid=objid, genno=genno))
    for p in [0, -1, -4, -3904, -44, 4, 8, 16, 28, 2 ** 31 - 1, -2 ** 31, -1852, -3392] + [ctx.sub("perm", k).randrange(-2 ** 31, 2 ** 31) for k in range(60)]:
        pu = p if p > 0 else p + 2 ** 32
        perm_cases.append((gz(p), CLs([CZ(1 if pu & 4 else 0), CZ(1 if pu & 8 else 0), CZ(1 if pu & 16 else 0)])))
    for tag, fn, cases, metas, shard in (("c10a", "run_auth", auth_cases, auth_meta, 6), ("c10b", "run_auth5", auth5_cases, auth5_meta, 20),
                                         ("c10d", "run_objdec", dec_cases, dec_meta, 20), ("c10p", "run_perms", perm_cases, None, 200)):
        bad = common.coq_cases(tag, ["Model.Crypt", "Model.CryptRun"], fn, cases, shard=shard)
        for i, shown in sorted(bad.items()):
            m = dict(metas[i]) if metas else {"case": cases[i][0]}
            ctx.disagree(fn, m, shown, cases[i][1])


def rc4_or_aes(enc, objid, genno, data, is_stream):
    return enc.encrypt(objid, genno, data, is_stream)


def gmixed(pairs):
    """table whose keys contain the -1 separator"""
    if not pairs:
        return EMPTY_TABLE
    return glist(["([%s], %s)" % ("; ".join(gz(x) for x in k), gbytes(v)) for k, v in pairs])


# ------------------------------------------------------------------ revision-6 password hash (Algorithm 2.B)
def r6_cases(ctx, n_model, n_oracle):
    """_r6_password against Model/CryptR6.v (tables of the SHA-2 and AES calls it made) and against the reference
    implementation of ISO 32000-2 Algorithm 2.B"""
    import hashlib
    import pdfminer.pdfdocument as pd
    h = pd.PDFStandardSecurityHandlerV5.__new__(pd.PDFStandardSecurityHandlerV5)
    saved = (pd.sha256, pd.sha384, pd.sha512, pd.PDFStandardSecurityHandlerV5._aes_cbc_encrypt)
    calls = {"aes": [], "sha256": [], "sha384": [], "sha512": []}

    def mk(name, real):
        class H:
            def __init__(self, data=b""):
                self.buf = bytes(data)

            def update(self, d):
                self.buf += bytes(d)

            def digest(self):
                d = real(self.buf).digest()
                calls[name].append((self.buf, d))
                return d
        return H
    real_aes = saved[3]

    def aes(self, key, iv, data):
        e = real_aes(self, key=key, iv=iv, data=data)
        calls["aes"].append((bytes(key), bytes(iv), bytes(data), bytes(e)))
        return e
    cases, metas = [], []
    try:
        pd.sha256, pd.sha384, pd.sha512 = mk("sha256", hashlib.sha256), mk("sha384", hashlib.sha384), mk("sha512", hashlib.sha512)
        pd.PDFStandardSecurityHandlerV5._aes_cbc_encrypt = aes
        for i in range(n_model):
            r = ctx.sub("r6m", i)
            pw = bytes(r.randrange(256) for _ in range(r.choice([0, 1, 4, 8, 20, 127])))
            salt = bytes(r.randrange(256) for _ in range(8))
            vec = bytes(r.randrange(256) for _ in range(48)) if r.random() < 0.5 else None
            for v in calls.values():
                del v[:]
            got = h._r6_password(pw, salt, vec)
            rounds = len(calls["aes"])
            ctx.case("r6hash", (pw, salt, vec), nontrivial=True, sample={"password": pw.hex()[:20], "rounds": rounds})
            sur = {}
            etab = []
            for key, iv, data, e in calls["aes"]:
                blk = data[:len(data) // 64]
                if blk * 64 != data:
                    ctx.violation("r6hash", {"password": pw.hex(), "salt": salt.hex()}, "the block 64 times", len(data), "AES input is not a 64-fold repetition")
                k = "(%s ++ [-1] ++ %s ++ [-1] ++ %s)%%list" % (gbytes(key), gbytes(iv), gbytes(blk))
                sur[e] = "(%s ++ %s ++ %s)%%list" % (gbytes(e[:16]), k, gbytes(e[-1:]))
                etab.append((k, gbytes(e[:16] + e[-1:])))
            tabs = []
            for name in ("sha256", "sha384", "sha512"):
                tabs.append([(sur.get(buf, gbytes(buf)), gbytes(d)) for buf, d in calls[name]])

            def gt(pairs):
                return glist(["(%s, %s)" % (k, v) for k, v in pairs]) if pairs else EMPTY_TABLE
            cases.append(("(%s, (%s, %s, %s), (%s, %s, %s))" % (gt(etab), gt(tabs[0]), gt(tabs[1]), gt(tabs[2]), gbytes(pw), gbytes(salt), gbytes(vec or b"")),
                          CLs([CBy(got), CZ(rounds)])))
            metas.append({"password": pw.hex(), "salt": salt.hex(), "vector": (vec or b"").hex()})
    finally:
        pd.sha256, pd.sha384, pd.sha512, pd.PDFStandardSecurityHandlerV5._aes_cbc_encrypt = saved
    bad = common.coq_cases("c10h", ["Model.Crypt", "Model.CryptR6", "Model.CryptRun"], "run_r6", cases, shard=2)
    for i, shown in sorted(bad.items()):
        ctx.disagree("r6hash", metas[i], shown[:300], str(cases[i][1])[:300])
    # the reference implementation, on many more inputs (a slip in the loop bound shows in about one hash of forty)
    for i in range(n_oracle):
        r = ctx.sub("r6o", i)
        pw = bytes(r.randrange(256) for _ in range(r.choice([0, 1, 4, 8, 20, 127])))
        salt = bytes(r.randrange(256) for _ in range(8))
        vec = bytes(r.randrange(256) for _ in range(48)) if r.random() < 0.5 else None
        got = h._r6_password(pw, salt, vec)
        want = pdfcrypt.hash_2b(pw, salt, vec or b"")
        ctx.case("r6hash-ref", (pw, salt, vec), nontrivial=True)
        if got != want:
            ctx.violation("r6hash", {"password": pw.hex(), "salt": salt.hex(), "vector": (vec or b"").hex()}, want.hex(), got.hex(),
                          "revision-6 password hash differs from ISO 32000-2 Algorithm 2.B")
            break


def correspondence(ctx):
    rc4_cases(ctx, ctx.n(100, 2000))
    docs_cases(ctx, ctx.n(64, 1600))
    r6_cases(ctx, ctx.n(16, 120), ctx.n(400, 8000))


def oracle(ctx):
    pass


def known_match(finding, item):
    return False


def confirm_known(ctx, finding):
    return False


def replay(ctx, data):
    item = data.get("violation") or (data.get("correspondence_disagreements") or [None])[0]
    print("replay: re-run ./check C10; stored case:", str(item)[:1500])


if __name__ == "__main__":
    sys.exit(common.main(sys.modules[__name__]))
