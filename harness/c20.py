#!/usr/bin/env python3
"""C20 -- geometry helpers and the spatial index (see DESIGN.md section 4, C20)."""
import os
import sys
from fractions import Fraction as Fr

sys.path.insert(0, os.path.dirname(os.path.abspath(__file__)))
import common

PROP = "C20"
GEN = ["gen_geom"]
PROPS_FILE = "theories/Props/C20.v"
COQ_TARGETS = ["theories/Props/C20.vo", "theories/Extract/ExtC20.vo"]
DRIVER = "c20"
LEVEL = "proof"
RULE = ("matrix: random rational 6-tuples/points/rects, helper evaluated by pdfminer on fractions.Fraction and on "
        "floats (dyadic inputs) vs the extracted generated definition; plane: random histories of add/remove/find/"
        "iterate with boxes snapped on, across and outside cell borders and plane bounds (negative and fractional "
        "coordinates, zero-size boxes), pdfminer.utils.Plane on LTComponent objects vs extracted Model/Plane.v, "
        "plus a brute-force oracle on the implementation alone. A history is non-trivial when some find returns a "
        "non-empty result and it contains a removal; distinct = distinct case text.")
TRUSTED = [
    "modelled by hand (not generated): Plane's loops, grid dictionary, object set, find's dedup and overlap filter "
    "(Model/Plane.v), tied by correspondence; generated from source on every run: mult_matrix, translate_matrix, "
    "apply_matrix_pt, apply_matrix_rect, apply_matrix_norm, drange, the clamp of Plane._getrange",
    "float rounding is outside the theorems: they are stated over any commutative ring / over Q",
]
MANIFEST_ENTRY = {
    "category": "proof",
    "technique": "Coq proof (ring/lra/induction over operation sequences) about Gallina regenerated from utils.py by the "
                 "AST translator, plus model/implementation differential runs of Plane histories",
    "text": "Affine laws are Coq theorems over every commutative ring about the definitions regenerated from utils.py on each "
            "run (mult/translate/apply_pt/apply_norm/apply_rect); the rectangle hull is proved over Q; Plane.find = brute "
            "force over live objects and iteration order are proved for every operation sequence, every bounds/gridsize and "
            "every query over Q for a hand model whose cell arithmetic (drange, clamp) is generated from source; the model's "
            "loops are tied to utils.Plane by differential runs on Fractions and floats.",
    "note": "Trusted: Coq kernel, translator (py2coq), extraction + OCaml driver, harness; Plane's loops/dict/set are modelled "
            "by hand (Model/Plane.v) and only tied by correspondence; float rounding is outside the theorems (exact Q / "
            "generic ring); objects are assumed inserted once and boxes well-formed (x0<=x1,y0<=y1).",
    "design_ref": "DESIGN.md section 4, C20",
}
ASSUMPTIONS = [
    "objects are inserted at most once (fresh identity) and only live objects are removed; boxes satisfy x0<=x1, y0<=y1; "
    "plane bounds satisfy x0<=x1, y0<=y1 and gridsize>0",
]


def qs(x):
    x = Fr(x)
    n, d = x.numerator, x.denominator
    return ("-%x" % -n if n < 0 else "%x" % n) + "/%x" % d


def parse_q(s):
    n, d = s.split("/")
    return Fr(int(n, 16), int(d, 16))


def rnd_q(r, big=False):
    k = r.random()
    if k < 0.15:
        return Fr(0)
    if k < 0.3:
        return Fr(r.choice([1, -1]))
    den = r.choice([1, 1, 2, 4, 8, 3, 5, 1024])
    return Fr(r.randint(-2000 if big else -40, 2000 if big else 40), den)


def rnd_dyadic(r):
    return Fr(r.randint(-4096, 4096), r.choice([1, 2, 4, 16, 64]))


# ---------------------------------------------------------------- matrix helpers
def matrix_cases(ctx, n):
    from pdfminer import utils
    fns = {
        "mult": (lambda a: utils.mult_matrix(tuple(a[:6]), tuple(a[6:])), 12),
        "translate": (lambda a: utils.translate_matrix(tuple(a[:6]), tuple(a[6:])), 8),
        "pt": (lambda a: utils.apply_matrix_pt(tuple(a[:6]), tuple(a[6:])), 8),
        "rect": (lambda a: utils.apply_matrix_rect(tuple(a[:6]), tuple(a[6:])), 10),
        "norm": (lambda a: utils.apply_matrix_norm(tuple(a[:6]), tuple(a[6:])), 8),
    }
    lines, meta = [], []
    for i in range(n):
        r = ctx.sub("matrix", i)
        fn = r.choice(sorted(fns))
        f, arity = fns[fn]
        dy = r.random() < 0.4
        args = [rnd_dyadic(r) if dy else rnd_q(r) for _ in range(arity)]
        lines.append("M %s %s" % (fn, " ".join(qs(a) for a in args)))
        meta.append((fn, f, args, dy))
    outs = common.run_model(DRIVER, lines)
    for line, out, (fn, f, args, dy) in zip(lines, outs, meta):
        try:
            want = [parse_q(t) for t in out.split()]
        except Exception:
            ctx.disagree("matrix", line, out, "unparseable model output")
            continue
        got = list(f(args))
        ctx.case("matrix", line, nontrivial=any(a not in (0, 1) for a in args),
                 sample={"call": fn, "args": [str(a) for a in args], "result": [str(g) for g in got]})
        if got != want:
            ctx.disagree("matrix", line, [str(w) for w in want], [str(g) for g in got])
        if dy:
            gotf = list(f([float(a) for a in args]))
            if [Fr(g) for g in gotf] != want:
                ctx.disagree("matrix-float", line, [str(w) for w in want], [repr(g) for g in gotf])


def matrix_oracle(ctx, n):
    """the algebraic laws, directly on the implementation with Fractions"""
    from pdfminer import utils
    I = (Fr(1), Fr(0), Fr(0), Fr(1), Fr(0), Fr(0))
    for i in range(n):
        r = ctx.sub("matrix-laws", i)
        m0, m1, m2 = (tuple(rnd_q(r) for _ in range(6)) for _ in range(3))
        p, v = (rnd_q(r), rnd_q(r)), (rnd_q(r), rnd_q(r))
        rect = sorted([rnd_q(r), rnd_q(r)]), sorted([rnd_q(r), rnd_q(r)])
        rect = (rect[0][0], rect[1][0], rect[0][1], rect[1][1])
        inp = {"m0": list(map(str, m0)), "m1": list(map(str, m1)), "m2": list(map(str, m2)),
               "p": list(map(str, p)), "v": list(map(str, v)), "rect": list(map(str, rect))}
        ctx.case("matrix-laws", repr(inp), sample=inp)
        mm, ap = utils.mult_matrix, utils.apply_matrix_pt
        checks = [
            ("associativity", mm(m2, mm(m1, m0)), mm(mm(m2, m1), m0)),
            ("left identity", mm(I, m0), m0), ("right identity", mm(m0, I), m0),
            ("apply composed", ap(mm(m1, m0), p), ap(m0, ap(m1, p))),
            ("translate = premultiply", utils.translate_matrix(m0, v), mm((1, 0, 0, 1, v[0], v[1]), m0)),
            ("translate apply", ap(utils.translate_matrix(m0, v), p), ap(m0, (p[0] + v[0], p[1] + v[1]))),
            ("norm", utils.apply_matrix_norm(m0, p),
             tuple(a - b for a, b in zip(ap(m0, p), ap(m0, (Fr(0), Fr(0)))))),
        ]
        cs = [ap(m0, c) for c in [(rect[0], rect[1]), (rect[2], rect[1]), (rect[2], rect[3]), (rect[0], rect[3])]]
        hull = (min(c[0] for c in cs), min(c[1] for c in cs), max(c[0] for c in cs), max(c[1] for c in cs))
        checks.append(("rect hull", utils.apply_matrix_rect(m0, rect), hull))
        for what, a, b in checks:
            if tuple(a) != tuple(b):
                ctx.violation("matrix-laws", dict(inp, law=what), [str(x) for x in b], [str(x) for x in a],
                              "affine law '%s' fails on exact rationals" % what)


# ---------------------------------------------------------------- plane
def gen_history(r):
    g = r.choice([1, 7, 50, 50, 64])
    kind = r.random()
    if kind < 0.5:
        b = (Fr(0), Fr(0), Fr(g * r.randint(1, 4)), Fr(g * r.randint(1, 4)))
    elif kind < 0.8:
        x0, y0 = Fr(r.randint(-150, 20)), Fr(r.randint(-150, 20))
        b = (x0, y0, x0 + r.randint(0, 6 * g), y0 + r.randint(0, 6 * g))   # <= ~8x8 cells: the model's grid is a closure chain
    else:
        x0, y0 = Fr(r.randint(-600, 100), 4), Fr(r.randint(-600, 100), 4)
        b = (x0, y0, x0 + Fr(r.randint(0, 24 * g), 4), y0 + Fr(r.randint(0, 24 * g), 4))

    def coord(lo, hi):
        k = r.random()
        if k < 0.45:   # on / next to a cell border
            base = Fr(g * r.randint(int(lo) // g - 2, int(hi) // g + 2))
            return base + r.choice([0, 0, Fr(1, 2), -Fr(1, 2), 1, -1])
        if k < 0.6:    # on / next to the plane bounds
            return r.choice([lo, hi]) + r.choice([0, Fr(1, 4), -Fr(1, 4), 1, -1])
        if k < 0.7:    # inside (-1, 0)
            return -Fr(r.randint(1, 9), 10)
        return Fr(r.randint(int(lo) * 4 - 200, int(hi) * 4 + 200), 4)

    def rbox():
        xs = sorted([coord(b[0], b[2]), coord(b[0], b[2])])
        ys = sorted([coord(b[1], b[3]), coord(b[1], b[3])])
        if r.random() < 0.08:
            xs[1] = xs[0]
        if r.random() < 0.08:
            ys[1] = ys[0]
        return (xs[0], ys[0], xs[1], ys[1])

    ops, live, nxt, dead = [], [], 1, []
    for _ in range(r.randint(5, 60)):
        k = r.random()
        if k < 0.4 or not live:
            ops.append(("A", nxt) + rbox())
            live.append(nxt)
            nxt += 1
        elif k < 0.55:
            i = r.choice(live)
            live.remove(i)
            dead.append(i)
            ops.append(("R", i))
        elif k < 0.58 and dead:
            ops.append(("R", r.choice(dead)))      # KeyError path
        elif k < 0.9:
            ops.append(("F",) + rbox())
        elif k < 0.97:
            ops.append(("I",))
        else:
            ops.append(("L",))
    ops.append(("F",) + (b[0] - 1000, b[1] - 1000, b[2] + 1000, b[3] + 1000))
    ops.append(("I",))
    return b, g, ops


def history_line(b, g, ops):
    parts = ["P " + " ".join(qs(x) for x in b) + " %x" % g]
    for op in ops:
        if op[0] == "A":
            parts.append("A %d %s" % (op[1], " ".join(qs(x) for x in op[2:])))
        elif op[0] == "R":
            parts.append("R %d" % op[1])
        elif op[0] == "F":
            parts.append("F " + " ".join(qs(x) for x in op[1:]))
        else:
            parts.append(op[0])
    return " ; ".join(parts)


def run_impl_history(b, g, ops, as_float=False, check=None):
    """returns the canonical output string; check(kind, got_ids, plane_state) is the oracle hook"""
    from pdfminer.utils import Plane
    from pdfminer.layout import LTComponent
    cv = (lambda x: float(x)) if as_float else (lambda x: x)
    plane = Plane(tuple(cv(x) for x in b), g)
    objs, ids, out = {}, {}, []
    live_order = []
    for op in ops:
        if op[0] == "A":
            o = LTComponent(tuple(cv(x) for x in op[2:]))
            objs[op[1]] = o
            ids[id(o)] = op[1]
            plane.add(o)
            live_order.append(op[1])
        elif op[0] == "R":
            try:
                plane.remove(objs[op[1]])
                live_order.remove(op[1])
            except KeyError:
                out.append("KeyError")
        elif op[0] == "F":
            got = [ids[id(o)] for o in plane.find(tuple(cv(x) for x in op[1:]))]
            out.append("F[%s]" % ",".join(map(str, got)))
            if check:
                check("F", op, got, objs, live_order)
        elif op[0] == "I":
            got = [ids[id(o)] for o in plane]
            out.append("I[%s]" % ",".join(map(str, got)))
            if check:
                check("I", op, got, objs, live_order)
        elif op[0] == "L":
            out.append("L%d" % len(plane))
    return " ".join(out)


def plane_cases(ctx, n):
    hs = [gen_history(ctx.sub("plane", i)) for i in range(n)]
    lines = [history_line(*h) for h in hs]
    outs = common.run_model(DRIVER, lines)
    for h, line, out in zip(hs, lines, outs):
        got = run_impl_history(*h)
        nontriv = ("R " in line) and any(t.startswith("F[") and t != "F[]" for t in got.split())
        ctx.case("plane", line, nontrivial=nontriv, sample={"history": line, "answers": got})
        if got != out:
            ctx.disagree("plane", line, out, got)
        dy = all(x.denominator in (1, 2, 4) for op in h[2] for x in op[1:] if isinstance(x, Fr)) and \
            all(x.denominator in (1, 2, 4) for x in h[0])
        if dy:
            gotf = run_impl_history(*h, as_float=True)
            if gotf != out:
                ctx.disagree("plane-float", line, out, gotf)


def plane_oracle(ctx, n):
    for i in range(n):
        b, g, ops = gen_history(ctx.sub("plane-oracle", i))
        line = history_line(b, g, ops)
        bad = []

        def check(kind, op, got, objs, live_order):
            if kind == "F":
                x0, y0, x1, y1 = op[1:]
                want = [j for j in live_order
                        if not (objs[j].x1 <= x0 or x1 <= objs[j].x0 or objs[j].y1 <= y0 or y1 <= objs[j].y0)]
                if sorted(got) != sorted(want) or len(set(got)) != len(got):
                    bad.append(("find %s" % (tuple(map(str, op[1:])),), sorted(want), got))
            else:
                if got != live_order:
                    bad.append(("iterate", list(live_order), got))
        run_impl_history(b, g, ops, check=check)
        ctx.case("plane-oracle", line, nontrivial=("R " in line))
        if bad:
            what, want, got = bad[0]
            ctx.violation("plane-oracle", {"history": line, "at": what}, want, got,
                          "Plane.%s differs from brute force over live objects" % what.split()[0])


def correspondence(ctx):
    matrix_cases(ctx, ctx.n(400, 6000))
    plane_cases(ctx, ctx.n(400, 20000))


def oracle(ctx):
    matrix_oracle(ctx, ctx.n(100, 3000))
    plane_oracle(ctx, ctx.n(200, 10000))


def parse_history(line):
    parts = [p.strip() for p in line.split(";")]
    h = parts[0].split()
    b = tuple(parse_q(x if "/" in x else x + "/1") for x in h[1:5])
    g = int(h[5], 16)
    ops = []
    for p in parts[1:]:
        t = p.split()
        if not t:
            continue
        if t[0] == "A":
            ops.append(("A", int(t[1])) + tuple(parse_q(x) for x in t[2:]))
        elif t[0] == "R":
            ops.append(("R", int(t[1])))
        elif t[0] == "F":
            ops.append(("F",) + tuple(parse_q(x) for x in t[1:]))
        else:
            ops.append((t[0],))
    return b, g, ops


def replay(ctx, data):
    item = data.get("violation") or (data.get("correspondence_disagreements") or [None])[0]
    if not item:
        print("nothing to replay: the file names what no longer checks:", data.get("no_longer_checks"))
        return
    inp = item["input"]
    line = inp["history"] if isinstance(inp, dict) and "history" in inp else inp
    if isinstance(line, str) and line.startswith("P "):
        b, g, ops = parse_history(line)
        bad = []

        def check(kind, op, got, objs, live_order):
            if kind == "F":
                x0, y0, x1, y1 = op[1:]
                want = [j for j in live_order
                        if not (objs[j].x1 <= x0 or x1 <= objs[j].x0 or objs[j].y1 <= y0 or y1 <= objs[j].y0)]
                if sorted(got) != sorted(want) or len(set(got)) != len(got):
                    bad.append((str(op), want, got))
            elif got != live_order:
                bad.append(("iterate", list(live_order), got))
        got = run_impl_history(b, g, ops, check=check)
        print("implementation answers:", got)
        for w in bad:
            ctx.violation("plane-oracle", {"history": line, "at": w[0]}, w[1], w[2], "differs from brute force")
        try:
            out = common.run_model(DRIVER, [line])[0]
            print("model answers:         ", out)
            if out != got:
                ctx.disagree("plane", line, out, got)
        except Exception as e:
            print("model not available:", e)
    else:
        print("replay of matrix cases: re-run the check; input was", inp)


if __name__ == "__main__":
    sys.exit(common.main(sys.modules[__name__]))
