#!/usr/bin/env python3
"""C13 -- damaged input: errors stay in the library's family and work stays bounded (DESIGN.md section 4, C13)."""
import copy
import io
import os
import re
import signal
import sys
import traceback
import zlib

sys.path.insert(0, os.path.dirname(os.path.abspath(__file__)))
import common
from common import CZ, CLs, gz, glist
from pdfwriter import Name, Ref, Stream, write_pdf

PROP = "C13"
GEN = []
PROPS_FILE = "theories/Props/C13.v"
COQ_TARGETS = ["theories/Props/C13.vo", "theories/Model/GuardsRun.vo"]
DRIVER = None
LEVEL = "proof"
RULE = ("three feature-covering seed documents (embedded TrueType / Type 1 / CFF programs, RunLength / ASCIIHex / LZW+predictor streams, DeviceN / Indexed / Lab colour spaces, a CCITT inline image, a predefined CJK CMap, nested forms; simple, CID and Type3 fonts, ToUnicode, encoding Differences, W/W2, forms, "
        "images with filter chains (also exported to a scratch directory), inline images, colour spaces, outlines, page labels and named destinations as trees, "
        "inherited page attributes, Flate content); every single structural fault: each dictionary value and array "
        "element replaced by a value of another type (int, negative, real, 10^12, name, string, empty/non-empty array and "
        "dictionary, null, boolean, a reference to the object itself, to a missing object, into a cycle), each key or "
        "element removed, each stream's own /Length replaced likewise, each stream payload halved / emptied / randomised / extended; "
        "single faults INSIDE payloads: every operand token of every content stream, form and CMap stream of the seeds and of a "
        "fourth document using every operand-bearing construct (inline image dictionaries with filters, every ToUnicode / CMap "
        "section kind, usecmap, marked-content property lists) replaced by a token of another type or removed; truncation of the file at 60 "
        "points; run through extract_text, extract_pages and extract_text_to_fp(xml) under a call budget proportional to "
        "the seed's own cost and a wall-clock alarm; outcome classes: returns / library exception family "
        "(PSException and its subclasses, i.e. every PDF* error) / leak (type and innermost pdfminer frame) / RecursionError / budget exceeded. "
        "Guards compared with Model/Guards.v on reference chains of length 95..105 and cycles, on random form graphs, and on "
        "files whose /Prev and /XRefStm entries are redirected to arbitrary sections (cycles, self-links; read order "
        "observed by wrapping read_xref_from). "
        "Non-trivial: every faulted document.")
TRUSTED = [
    "modelled by hand: resolve1's hop limit, the path guards of do_Do / NumberTree._parse / lookup_name, the visited set of "
    "read_xref_from, the range limits "
    "(Model/Guards.v); exception classes and the work budget are observed on the implementation, fault by fault",
    "the call budget counts Python function calls (sys.setprofile); it bounds work relative to the undamaged seed",
]
ASSUMPTIONS = ["faults are single and structural (site x kind); byte-level fuzzing of the lexer is C14's domain"]
MANIFEST_ENTRY = {
    "category": "proof",
    "technique": "Coq proofs about the guards (resolve1 total with default on cycles and exact on chains <= 100; "
                 "path-guarded descent terminates within |objects|+1 levels on every finite graph by a measure on the "
                 "unvisited set; range limits) + exhaustive single-fault enumeration over seed documents with outcome "
                 "classification and a call budget",
    "text": "Theorems: resolve1 returns the end of every chain of <= 100 references and the default on every cycle; "
            "guarded descents (forms, number/name tree Kids) terminate on every finite object graph, cyclic or not, at "
            "depth <= number of objects + 1; the chain of cross-reference sections terminates on every graph of /Prev and "
            "/XRefStm links and reads no section twice; CMap and W ranges take <= 65536 steps and are exact below the limit. "
            "Observed fault by fault over four seed documents (object level and token level inside stream payloads) and over the trailer / cross-reference-stream / object-stream "
            "dictionaries of a two-revision file: no hang, no RecursionError, no leaked internal error, work "
            "within budget (the one recorded exception: work proportional to the page area in the layout plane).",
    "note": "Trusted: Coq kernel, hand model tied by differential runs, the fault enumerator and classifier.",
    "design_ref": "DESIGN.md section 4, C13",
}


class Budget(Exception):
    pass


class Alarm(Exception):
    pass


def _alarm(*a):
    raise Alarm()


# ------------------------------------------------------------------ seeds
def seed1():
    return {
        1: {"Type": Name("Catalog"), "Pages": Ref(2), "Outlines": Ref(30), "PageLabels": {"Nums": [0, {"S": Name("r")}]},
            "Names": {"Dests": {"Names": [b"a", [Ref(3), Name("Fit")]]}}},
        2: {"Type": Name("Pages"), "Kids": [Ref(3)], "Count": 1, "MediaBox": [0, 0, 612, 792]},
        3: {"Type": Name("Page"), "Parent": Ref(2), "Contents": [Ref(4), Ref(5)],
            "Resources": {"Font": {"F1": Ref(7), "F2": Ref(10)}, "XObject": {"Fm": Ref(20), "Im": Ref(21)},
                          "ColorSpace": {"Cs": [Name("ICCBased"), Ref(22)]}}, "Rotate": 0},
        4: Stream({"Filter": Name("FlateDecode")}, zlib.compress(b"BT /F1 12 Tf 72 700 Td (hello) Tj /F2 10 Tf <00410042> Tj ET q 1 0 0 1 5 5 cm /Fm Do Q")),
        5: Stream({}, b"q 10 0 0 10 100 100 cm /Im Do Q /Cs cs 0.5 0.5 0.5 scn 0 0 10 10 re f BI /W 1 /H 1 /CS /G /BPC 8 ID x\nEI"),
        7: {"Type": Name("Font"), "Subtype": Name("Type1"), "BaseFont": Name("Foo"), "FirstChar": 32, "Widths": [500] * 95,
            "Encoding": {"Type": Name("Encoding"), "BaseEncoding": Name("WinAnsiEncoding"), "Differences": [65, Name("B")]},
            "FontDescriptor": Ref(8), "ToUnicode": Ref(9)},
        8: {"Type": Name("FontDescriptor"), "FontName": Name("Foo"), "Flags": 32, "FontBBox": [0, -200, 1000, 800], "Ascent": 800,
            "Descent": -200, "MissingWidth": 250},
        9: Stream({}, b"begincmap 1 beginbfchar <41> <0042> endbfchar 1 beginbfrange <61> <63> <0061> endbfrange endcmap"),
        10: {"Type": Name("Font"), "Subtype": Name("Type0"), "BaseFont": Name("Bar"), "Encoding": Name("Identity-H"),
             "DescendantFonts": [Ref(11)], "ToUnicode": Ref(9)},
        11: {"Type": Name("Font"), "Subtype": Name("CIDFontType2"), "BaseFont": Name("Bar"),
             "CIDSystemInfo": {"Registry": b"Adobe", "Ordering": b"Identity", "Supplement": 0}, "DW": 1000,
             "W": [65, [500, 600], 70, 80, 700], "FontDescriptor": Ref(12)},
        12: {"Type": Name("FontDescriptor"), "FontName": Name("Bar"), "Flags": 4, "FontBBox": [0, -200, 1000, 800], "Ascent": 800, "Descent": -200},
        20: Stream({"Type": Name("XObject"), "Subtype": Name("Form"), "BBox": [0, 0, 100, 100], "Matrix": [1, 0, 0, 1, 0, 0],
                    "Resources": {"Font": {"F1": Ref(7)}}}, b"BT /F1 9 Tf 1 1 Td (in) Tj ET"),
        21: Stream({"Type": Name("XObject"), "Subtype": Name("Image"), "Width": 2, "Height": 2, "ColorSpace": Name("DeviceGray"),
                    "BitsPerComponent": 8, "Filter": [Name("ASCIIHexDecode")], "DecodeParms": [None]}, b"00112233>"),
        22: Stream({"N": 3}, b"icc"),
        30: {"Type": Name("Outlines"), "First": Ref(31), "Last": Ref(31)},
        31: {"Title": b"T", "Parent": Ref(30), "Dest": [Ref(3), Name("Fit")]},
    }


def seed2():
    return {
        1: {"Type": Name("Catalog"), "Pages": Ref(2), "PageLabels": Ref(40), "Names": {"Dests": Ref(42)}, "Outlines": Ref(30)},
        2: {"Type": Name("Pages"), "Kids": [Ref(50), Ref(6)], "Count": 2, "Resources": {"Font": {"F1": Ref(7)}}, "Rotate": 90},
        50: {"Type": Name("Pages"), "Parent": Ref(2), "Kids": [Ref(3)], "Count": 1, "MediaBox": [0, 0, 300, 400], "CropBox": [10, 10, 290, 390]},
        3: {"Type": Name("Page"), "Parent": Ref(50), "Contents": Ref(4)},
        6: {"Type": Name("Page"), "Parent": Ref(2), "MediaBox": [0, 0, 200, 200], "Contents": Ref(5),
            "Resources": {"Font": {"F3": Ref(13), "FV": Ref(14)}}},
        4: Stream({}, b"BT /F1 12 Tf 1 0 0 1 50 300 Tm [(AB) -200 (C)] TJ T* (x) ' ET 1 0 0 RG 2 w 10 10 m 50 50 l 60 10 70 20 80 10 c h S"),
        5: Stream({"Filter": [Name("ASCII85Decode"), Name("FlateDecode")]},
                  __import__("base64").a85encode(zlib.compress(b"BT /F3 10 Tf 20 100 Td (ab) Tj /FV 10 Tf 100 150 Td <00410042> Tj ET"), adobe=False) + b"~>"),
        7: {"Type": Name("Font"), "Subtype": Name("TrueType"), "BaseFont": Name("Helvetica"), "Encoding": Name("MacRomanEncoding")},
        13: {"Type": Name("Font"), "Subtype": Name("Type3"), "FontBBox": [0, 0, 1000, 1000], "FontMatrix": [0.001, 0, 0, 0.001, 0, 0],
             "CharProcs": {}, "Encoding": {"Differences": [97, Name("a"), Name("b")]}, "FirstChar": 97, "LastChar": 98, "Widths": [600, 700]},
        14: {"Type": Name("Font"), "Subtype": Name("Type0"), "BaseFont": Name("V"), "Encoding": Name("Identity-V"), "DescendantFonts": [Ref(15)]},
        15: {"Type": Name("Font"), "Subtype": Name("CIDFontType0"), "BaseFont": Name("V"),
             "CIDSystemInfo": {"Registry": b"Adobe", "Ordering": b"Japan1", "Supplement": 2}, "DW2": [880, -1000],
             "W2": [65, [-900, 500, 880], 70, 72, -800, 400, 800], "FontDescriptor": {"Type": Name("FontDescriptor"), "FontName": Name("V"),
                                                                                 "Flags": 4, "FontBBox": [0, 0, 1000, 1000]}},
        30: {"Type": Name("Outlines"), "First": Ref(31), "Last": Ref(32)},
        31: {"Title": b"One", "Parent": Ref(30), "Next": Ref(32), "First": Ref(33), "Last": Ref(33), "A": {"S": Name("GoTo"), "D": b"d1"}},
        32: {"Title": b"\xfe\xff\x00T", "Parent": Ref(30), "Prev": Ref(31), "Dest": Name("d2")},
        33: {"Title": b"Sub", "Parent": Ref(31), "Dest": [Ref(6), Name("XYZ"), 0, 0, 0]},
        40: {"Kids": [Ref(41)]}, 41: {"Nums": [0, {"S": Name("D"), "St": 5}, 1, {"P": b"A-"}], "Limits": [0, 1]},
        42: {"Kids": [Ref(43)]}, 43: {"Names": [b"d1", [Ref(3), Name("Fit")], b"d2", {"D": [Ref(6), Name("Fit")]}], "Limits": [b"d1", b"d2"]},
    }


def seed3():
    """embedded font programs (TrueType cmap, Type 1 header, CFF), RunLength / ASCIIHex / LZW+predictor content streams,
    DeviceN / Indexed / Lab colour spaces, a CCITT inline image, a predefined CJK CMap, nested forms"""
    import random
    import c03
    import c07
    r = random.Random(3)
    ttf, _ = c07.gen_ttf(random.Random(5))
    t1 = (b"%!PS-AdobeFont-1.0: Foo 001.001\n/FontName /Foo def\n/Encoding 256 array\n0 1 255 {1 index exch /.notdef put} for\n"
          b"dup 65 /B put\ndup 66 /A put\nreadonly def\ncurrentdict end\ncurrentfile eexec\n") + bytes(range(64))
    content1 = b"BT /F1 12 Tf 72 700 Td (AB) Tj /F2 10 Tf <00200041> Tj /F4 8 Tf (ab) Tj ET /Dn cs 0.2 0.4 scn 0 0 5 5 re f /Ix cs 1 sc 5 5 5 5 re f q 4 0 0 4 9 9 cm /It Do Q"
    content2 = (b"BT /F3 10 Tf 20 100 Td <8140> Tj ET /Lb CS 50 0 0 SC 1 1 m 9 9 l S q 2 0 0 2 0 0 cm /Outer Do Q "
                b"BI /W 5 /H 2 /BPC 1 /F /CCF /DP << /K -1 /Columns 5 >> ID \x26\xba\x8a\x80\x08\x00\x80\nEI")
    rows = [list(content2[i:i + 16].ljust(16, b" ")) for i in range(0, len(content2), 16)]
    pred = c03.png_encode(r, rows, 1)[0]
    return {
        1: {"Type": Name("Catalog"), "Pages": Ref(2)},
        2: {"Type": Name("Pages"), "Kids": [Ref(3), Ref(6)], "Count": 2, "MediaBox": [0, 0, 612, 792]},
        3: {"Type": Name("Page"), "Parent": Ref(2), "Contents": [Ref(4)],
            "Resources": {"Font": {"F1": Ref(7), "F2": Ref(10), "F4": Ref(16)}, "XObject": {"It": Ref(22)},
                          "ColorSpace": {"Dn": [Name("DeviceN"), [Name("A"), Name("B")], Name("DeviceCMYK"), {"FunctionType": 2}],
                                         "Ix": [Name("Indexed"), Name("DeviceRGB"), 1, b"\x00\x00\x00\xff\xff\xff"]}}},
        4: Stream({"Filter": Name("RunLengthDecode")}, c03.rl_encode(r, content1)),
        6: {"Type": Name("Page"), "Parent": Ref(2), "Contents": Ref(5), "UserUnit": 2,
            "Resources": {"Font": {"F3": Ref(13)}, "XObject": {"Outer": Ref(20)},
                          "ColorSpace": {"Lb": [Name("Lab"), {"WhitePoint": [0.9, 1, 1.1], "Range": [-100, 100, -100, 100]}]}}},
        5: Stream({"Filter": [Name("AHx"), Name("LZWDecode")], "DecodeParms": [None, {"Predictor": 12, "Columns": 16, "Colors": 1, "BitsPerComponent": 8}]},
                  c03.hex_encode(r, c03.lzw_encode(r, pred))),
        7: {"Type": Name("Font"), "Subtype": Name("Type1"), "BaseFont": Name("Foo"), "FirstChar": 65, "LastChar": 66, "Widths": [500, 600],
            "FontDescriptor": {"Type": Name("FontDescriptor"), "FontName": Name("Foo"), "Flags": 4, "FontBBox": [0, -200, 1000, 800],
                               "FontFile": Ref(8)}},
        8: Stream({"Length1": len(t1) - 64, "Length2": 64, "Length3": 0}, t1),
        10: {"Type": Name("Font"), "Subtype": Name("Type0"), "BaseFont": Name("Bar"), "Encoding": Name("Identity-H"), "DescendantFonts": [Ref(11)]},
        11: {"Type": Name("Font"), "Subtype": Name("CIDFontType2"), "BaseFont": Name("Bar"), "CIDToGIDMap": Name("Identity"),
             "CIDSystemInfo": {"Registry": b"Adobe", "Ordering": b"Identity", "Supplement": 0}, "DW": 1000, "W": [32, 40, 500],
             "FontDescriptor": {"Type": Name("FontDescriptor"), "FontName": Name("Bar"), "Flags": 4, "FontBBox": [0, -200, 1000, 800],
                                "FontFile2": Ref(12)}},
        12: Stream({"Length1": len(ttf)}, ttf),
        13: {"Type": Name("Font"), "Subtype": Name("Type0"), "BaseFont": Name("J"), "Encoding": Name("90ms-RKSJ-H"), "DescendantFonts": [Ref(14)]},
        14: {"Type": Name("Font"), "Subtype": Name("CIDFontType0"), "BaseFont": Name("J"),
             "CIDSystemInfo": {"Registry": b"Adobe", "Ordering": b"Japan1", "Supplement": 2}, "DW": 1000,
             "FontDescriptor": {"Type": Name("FontDescriptor"), "FontName": Name("J"), "Flags": 4, "FontBBox": [0, -200, 1000, 800],
                                "FontFile3": Ref(15)}},
        15: Stream({"Subtype": Name("CIDFontType0C")}, b"\x01\x00\x04\x01" + bytes(40)),
        16: {"Type": Name("Font"), "Subtype": Name("MMType1"), "BaseFont": Name("Times-Roman"), "Encoding": Name("StandardEncoding")},
        22: Stream({"Type": Name("XObject"), "Subtype": Name("Image"), "Width": 2, "Height": 2, "ColorSpace": Name("DeviceRGB"), "BitsPerComponent": 8,
                    "Filter": Name("FlateDecode"), "DecodeParms": {"Predictor": 2, "Colors": 3, "Columns": 2}},
                   zlib.compress(c03.tiff_encode([[1, 2, 3, 4, 5, 6], [7, 8, 9, 10, 11, 12]], 3))),
        20: Stream({"Type": Name("XObject"), "Subtype": Name("Form"), "BBox": [0, 0, 50, 50], "Resources": {"XObject": {"Inner": Ref(21)}}},
                   b"q /Inner Do Q 0 0 m 1 1 l S"),
        21: Stream({"Type": Name("XObject"), "Subtype": Name("Form"), "BBox": [0, 0, 10, 10], "Matrix": [1, 0, 0, 1, 2, 2]}, b"0 0 3 3 re f"),
    }


SEEDS = [("seed1", seed1), ("seed2", seed2), ("seed3", seed3)]
# (object, path, replacement) of the single faults that exposed a defect since repaired in /repo
CORPUS = {
    "seed1": [(4, "<dict>/Length", "SELF"), (3, "Resources/ColorSpace/Cs", []), (3, "Resources/ColorSpace/Cs/1", [1, 2]), (22, "<dict>/N", "REMOVE"),
              (10, "DescendantFonts", None)],
    "seed2": [(13, "FontBBox", None), (14, "DescendantFonts", None), (15, "DW2", Name("X")), (15, "DW2/0", Name("X")),
              (15, "DW2/1", "REMOVE"), (15, "DW2", {"A": 1}), (15, "W2/1/1", b"str"), (15, "W2/2", 1.5), (5, "<data>", "randomised")],
    "seed3": [(5, "<dict>/Filter/0", "REMOVE"), (8, "<dict>/Length1", None), (14, "DW", b"str"), (5, "<dict>/DecodeParms/0", b"str"),
              (5, "<dict>/DecodeParms/1/Columns", -1), (5, "<dict>/DecodeParms/1/Columns", 10 ** 12), (12, "<data>", "halved"),
              (22, "<dict>/BitsPerComponent", 0), (22, "<dict>/Width", Name("X")), (22, "<data>", "halved")],
}
REPL = [0, -1, 1.5, 10 ** 12, Name("X"), b"str", [], [1, 2], {}, {"A": 1}, None, True, "SELF", "MISSING", "CYCLE", "REMOVE"]


def sites(v, path=()):
    if isinstance(v, Stream):
        yield from sites(v.d, path + ("<dict>",))
        yield path + ("<data>",)
    elif isinstance(v, dict):
        for k, x in v.items():
            yield path + (k,)
            yield from sites(x, path + (k,))
    elif isinstance(v, list):
        for i, x in enumerate(v):
            yield path + (i,)
            yield from sites(x, path + (i,))


def setp(v, path, new, remove=False):
    v = copy.deepcopy(v)
    cur = v
    for p in path[:-1]:
        cur = cur.d if p == "<dict>" else cur[p]
    last = path[-1]
    if last == "<data>":
        cur.data = new
    elif remove:
        if isinstance(cur, dict):
            cur.pop(last)
        else:
            del cur[last]
    else:
        cur[last] = new
    return v


def apply_fault(objs, n, path, rep, r):
    o2 = dict(objs)
    if len(path) >= 2 and path[-1] == "Length" and path[-2] == "<dict>" and isinstance(objs[n], Stream) and len(path) == 2:
        # the stream's own /Length (normally written by the serialiser) replaced by a value of another type
        st = copy.deepcopy(objs[n])
        st.set_length = False
        if rep == "REMOVE":
            st.d.pop("Length", None)
        elif rep == "SELF":
            st.d["Length"] = Ref(n)
        elif rep == "MISSING":
            st.d["Length"] = Ref(999)
        elif rep == "CYCLE":
            st.d["Length"] = Ref(900)
            o2[900] = [Ref(901)]
            o2[901] = {"A": Ref(900)}
        else:
            st.d["Length"] = rep
        o2[n] = st
        return o2
    if path[-1] == "<data>":
        d = objs[n].data
        new = {"halved": d[:len(d) // 2], "emptied": b"", "randomised": bytes(r.randrange(256) for _ in d), "extended": d + b"junk \xff"}[rep]
        o2[n] = setp(objs[n], path, new)
    elif rep == "REMOVE":
        o2[n] = setp(objs[n], path, None, True)
    elif rep == "SELF":
        o2[n] = setp(objs[n], path, Ref(n))
    elif rep == "MISSING":
        o2[n] = setp(objs[n], path, Ref(999))
    elif rep == "CYCLE":
        o2[n] = setp(objs[n], path, Ref(900))
        o2[900] = [Ref(901)]
        o2[901] = {"A": Ref(900)}
    else:
        o2[n] = setp(objs[n], path, rep)
    return o2


def _export_images(pdf):
    """extract_text_to_fp with an output directory: images are written (to a scratch directory removed afterwards)"""
    import shutil
    import tempfile
    from pdfminer.high_level import extract_text_to_fp
    root = os.path.join(common.WORK, "c13img")
    os.makedirs(root, exist_ok=True)
    d = tempfile.mkdtemp(dir=root)
    try:
        extract_text_to_fp(io.BytesIO(pdf), io.BytesIO(), output_type="xml", output_dir=d)
    finally:
        shutil.rmtree(d, ignore_errors=True)


def entry_points():
    from pdfminer.high_level import extract_text, extract_pages, extract_text_to_fp
    return [("extract_text", lambda pdf: extract_text(io.BytesIO(pdf))),
            ("extract_pages", lambda pdf: list(extract_pages(io.BytesIO(pdf)))),
            ("xml", lambda pdf: extract_text_to_fp(io.BytesIO(pdf), io.BytesIO(), output_type="xml")),
            ("images", _export_images)]


def run_budgeted(fn, pdf, budget, seconds=20):
    """returns (outcome class, detail, calls)"""
    from pdfminer.psexceptions import PSException
    calls = [0]

    def prof(frame, event, arg):
        if event == "call":
            calls[0] += 1
            if calls[0] > budget:
                raise Budget()
    signal.signal(signal.SIGALRM, _alarm)
    signal.alarm(seconds)
    sys.setprofile(prof)
    try:
        fn(pdf)
        out = ("ok", None)
    except Budget:
        out = ("budget", "more than %d calls" % budget)
    except Alarm:
        out = ("timeout", "%ds" % seconds)
    except PSException as e:
        out = ("family", type(e).__name__)
    except ImportError as e:
        # image export of some formats needs the optional Pillow package, which this sandbox does not have: the library
        # reports that with its documented ImportError; anything else that fails to import is a leak
        if "Pillow" in str(e) or "PIL" in str(e):
            out = ("family", "ImportError(optional dependency)")
        else:
            out = ("leak", "ImportError %s" % e)
    except RecursionError:
        out = ("recursion", None)
    except MemoryError:
        out = ("memory", None)
    except BaseException as e:  # noqa
        tb = traceback.extract_tb(e.__traceback__)
        fr = [f for f in tb if os.sep + "pdfminer" + os.sep in f.filename]
        f = fr[-1] if fr else tb[-1]
        out = ("leak", "%s %s:%s" % (type(e).__name__, os.path.basename(f.filename), f.name))
    finally:
        sys.setprofile(None)
        signal.alarm(0)
    return out + (calls[0],)


def fault_cases(ctx, per_seed, ntrunc):
    import logging
    logging.disable(logging.CRITICAL)
    eps = entry_points()
    for sname, mk in SEEDS:
        objs = mk()
        pdf0 = write_pdf(objs, 1)
        base = {}
        for ename, fn in eps:
            cls, det, calls = run_budgeted(fn, pdf0, 10 ** 9)
            base[ename] = calls
            ctx.case("seed", (sname, ename), nontrivial=True, sample={"seed": sname, "entry": ename, "outcome": cls, "calls": calls})
            if cls != "ok":
                ctx.violation("seed", {"seed": sname, "entry": ename}, "ok", (cls, det), "the undamaged seed does not extract")
        jobs = []
        for n, v in objs.items():
            for p in sites(v):
                reps = ["halved", "emptied", "randomised", "extended"] if p[-1] == "<data>" else REPL
                jobs += [(n, p, rep) for rep in reps]
            if isinstance(v, Stream):
                jobs += [(n, ("<dict>", "Length"), rep) for rep in REPL]
        all_jobs = list(jobs)
        r = ctx.sub("faults", sname)
        r.shuffle(jobs)
        if per_seed:
            jobs = jobs[:per_seed]
        # the faults that found the defects repaired in /repo run first, in every tier (regression corpus)
        first = [j for j in CORPUS.get(sname, []) if any(j[0] == n and "/".join(map(str, p)) == j[1] for n, p, _ in all_jobs)]
        pick = []
        for n0, p0, rep0 in first:
            for n, p, rep in all_jobs:
                if n == n0 and "/".join(map(str, p)) == p0 and repr(rep) == repr(rep0):
                    pick.append((n, p, rep))
                    break
        jobs = pick + [j for j in jobs if j not in pick]
        for n, p, rep in jobs:
            o2 = apply_fault(objs, n, p, rep, ctx.sub("fault", sname, n, repr(p), repr(rep)))
            try:
                pdf = write_pdf(o2, 1)
            except Exception:  # noqa
                continue
            one(ctx, eps, base, sname, {"seed": sname, "object": n, "path": [str(x) for x in p], "fault": repr(rep)}, pdf)
        if per_seed:
            # the sampled tier also sweeps ONE kind of fault over every site: each integer replaced by a real (the
            # commonest type confusion: 5.0 for 5 in an index, a count, a CID bound), first entry point only
            done = set((n, p) for n, p, rep in jobs if rep == 1.5)
            for n, p, rep in all_jobs:
                if rep != 1.5 or (n, p) in done or p[-1] == "<data>":
                    continue
                cur = objs[n]
                try:
                    for q in p:
                        cur = cur.d if q == "<dict>" else cur[q]
                except (KeyError, IndexError, TypeError, AttributeError):
                    continue
                if isinstance(cur, bool) or not isinstance(cur, int):
                    continue
                o2 = apply_fault(objs, n, p, rep, ctx.sub("fault", sname, n, repr(p), repr(rep)))
                try:
                    pdf = write_pdf(o2, 1)
                except Exception:  # noqa
                    continue
                one(ctx, eps[:1], base, sname, {"seed": sname, "object": n, "path": [str(x) for x in p], "fault": repr(rep)}, pdf)
        if sname == "seed1":
            # a page and a glyph that are both enormous: the spatial index works per 50x50 cell (known finding)
            huge = dict(objs)
            huge[2] = dict(objs[2], MediaBox=[0, 0, 10 ** 7, 10 ** 7])
            huge[4] = Stream({}, b"BT /F1 10000000 Tf 10 10 Td (hello) Tj 0 -20000000 Td (x) Tj ET")
            huge[3] = dict(objs[3], Contents=Ref(4))
            one(ctx, eps[:1], base, sname, {"seed": sname, "special": "HUGEPAGE"}, write_pdf(huge, 1))
        # truncation
        for k in range(1, ntrunc + 1):
            cut = len(pdf0) * k // (ntrunc + 1)
            one(ctx, eps, base, sname, {"seed": sname, "truncate_at": cut}, pdf0[:cut])
    logging.disable(logging.NOTSET)


def struct_cases(ctx, limit):
    """single faults in the dictionaries the FILE STRUCTURE is made of: trailers, cross-reference streams, object streams
    (two revisions: a cross-reference stream with object streams, then a hybrid update)"""
    import logging
    import random
    from pdfwriter import write_history
    logging.disable(logging.CRITICAL)
    eps = entry_points()
    objs = seed1()
    rev1 = {"defs": objs, "form": "stream", "packed": {1, 2, 3, 7, 8, 30, 31}, "root": 1}
    rev2 = {"defs": {3: dict(objs[3], Rotate=90), 8: objs[8], 40: {"K": 1}}, "form": "hybrid", "packed": {8, 40}, "root": 1}

    def build(mutate):
        return write_history([dict(rev1), dict(rev2)], random.Random(7), mutate=mutate)[0]
    sites = []

    def record(kind, d):
        idx = sum(1 for s in sites if s[0] == kind and s[2] is None)
        sites.append((kind, idx, None))
        for k, v in d.items():
            sites.append((kind, idx, k))
            if isinstance(v, list):
                sites.extend((kind, idx, (k, j)) for j in range(len(v)))
    pdf0 = build(record)
    import re as _re
    offsets = [int(m) for m in _re.findall(rb"startxref\s+(\d+)", pdf0)]
    base = {}
    for ename, fn in eps:
        cls, det, calls = run_budgeted(fn, pdf0, 10 ** 9)
        base[ename] = calls
        ctx.case("seed", ("struct", ename), nontrivial=True, sample={"seed": "struct", "entry": ename, "outcome": cls, "calls": calls})
        if cls != "ok":
            ctx.violation("seed", {"seed": "struct", "entry": ename}, "ok", (cls, det), "the undamaged structural seed does not extract")
    jobs = [(kind, idx, key, rep) for kind, idx, key in sites if key is not None for rep in REPL if rep not in ("SELF", "CYCLE")]
    # offsets that lead back to a section already read (cycles of /Prev and /XRefStm)
    jobs += [(kind, idx, key, off) for kind, idx, key in sites if key in ("Prev", "XRefStm") for off in offsets]
    jobs += [(kind, idx, "Prev", off) for kind, idx, key in sites if key is None and kind in ("trailer", "xrefstream") for off in offsets]
    r = ctx.sub("structfaults")
    r.shuffle(jobs)
    if limit:
        jobs = jobs[:limit]
    # the faults that found the defects repaired in /repo run first, in every tier (regression corpus)
    corpus = [("xrefstream", 0, ("Index", 9), 0), ("xrefstream", 0, ("Index", 3), True), ("xrefstream", 0, ("Index", 5), True),
              ("xrefstream", 1, "W", []), ("xrefstream", 0, "W", None), ("xrefstream", 0, "Size", "REMOVE"),
              ("xrefstream", 0, "Index", 10 ** 12), ("xrefstream", 1, "Index", -1), ("objstm", 0, "N", 1.5), ("objstm", 1, "N", []),
              ("trailer", 1, "Prev", -1), ("hybridtrailer", 0, "XRefStm", -1)]
    corpus += [(kind, idx, key, off) for kind, idx, key in sites if key in ("Prev", "XRefStm") for off in offsets]
    jobs = corpus + [j for j in jobs if j not in corpus]
    for kind, idx, key, rep in jobs:
        seen = {}

        def mutate(k, d, kind=kind, idx=idx, key=key, rep=rep):
            i = seen.get(k, 0)
            seen[k] = i + 1
            if k == kind and i == idx:
                val = Ref(99999) if rep == "MISSING" else rep
                if isinstance(key, tuple):
                    if key[0] in d and isinstance(d[key[0]], list) and key[1] < len(d[key[0]]):
                        d[key[0]] = list(d[key[0]])
                        if rep == "REMOVE":
                            del d[key[0]][key[1]]
                        else:
                            d[key[0]][key[1]] = val
                elif rep == "REMOVE":
                    d.pop(key, None)
                elif key in d or key == "Prev":
                    d[key] = val
        try:
            pdf = build(mutate)
        except Exception:  # noqa  (the writer itself needs some entries, e.g. integer widths)
            continue
        one(ctx, eps, base, "struct", {"seed": "struct", "dict": "%s#%d" % (kind, idx), "key": key, "fault": repr(rep)}, pdf)
    logging.disable(logging.NOTSET)


def crypt_cases(ctx, limit):
    """single faults in the encryption dictionary and the file identifier, for every algorithm/revision the standard
    security handler knows, opened with the right and with a wrong password"""
    import copy
    import logging
    import random
    import c10
    import pdfcrypt
    from pdfwriter import write_history
    logging.disable(logging.CRITICAL)
    repl = [x for x in REPL if x not in ("SELF", "CYCLE")]

    def paths(v, path=()):
        out = []
        if isinstance(v, dict):
            for k, x in v.items():
                out.append(path + (k,))
                out += paths(x, path + (k,))
        elif isinstance(v, list):
            for j, x in enumerate(v):
                out.append(path + (j,))
                out += paths(x, path + (j,))
        return out
    jobs = []
    docs = []
    for ci, cfg in enumerate(c10.CONFIGS):
        d = c10.gen_doc(random.Random(ci), cfg, ci)
        docs.append(d)
        encd = d["enc"].encrypt_dict()
        jobs += [(ci, p, rep) for p in paths(encd) + [("__ID__",), ("__ID__", 0)] for rep in repl]
    r = ctx.sub("cryptfaults")
    r.shuffle(jobs)
    if limit:
        jobs = jobs[:limit]
    # regression corpus: the faults that exposed the defects repaired in /repo, in every tier
    corpus = [(0, ("__ID__",), [1, 2]), (0, ("__ID__", 0), 0), (0, ("__ID__", 0), "REMOVE"), (0, ("P",), 10 ** 12), (0, ("P",), Name("X")),
              (0, ("O",), "REMOVE"), (0, ("R",), "REMOVE"), (1, ("Length",), 0), (1, ("Length",), 1.5), (4, ("CF",), {"A": 1}),
              (4, ("CF", "StdCF"), 0), (4, ("StmF",), "REMOVE"), (6, ("UE",), 0), (6, ("OE",), "REMOVE"), (7, ("U",), b"str")]
    jobs = corpus + [j for j in jobs if j not in corpus]
    for ci, p, rep in jobs:
        d = docs[ci]
        e2 = copy.deepcopy(d["enc"].encrypt_dict())
        idv = [d["docid"], d["docid"]]
        val = Ref(99999) if rep == "MISSING" else rep
        if p[0] == "__ID__":
            if len(p) == 1:
                idv = None if rep == "REMOVE" else val
            else:
                idv = idv[1:] if rep == "REMOVE" else [val, idv[1]]
        else:
            cur = e2
            for k in p[:-1]:
                cur = cur[k]
            if rep == "REMOVE":
                if isinstance(cur, dict):
                    cur.pop(p[-1], None)
                else:
                    del cur[p[-1]]
            else:
                cur[p[-1]] = val
        defs = dict(d["defs"])
        defs[9] = e2
        te = {"Encrypt": Ref(9)}
        if idv is not None:
            te["ID"] = idv
        try:
            pdf, _, _ = write_history([{"defs": defs, "form": d["form"], "packed": d["packed"], "root": 1, "info": 6}], random.Random(1),
                                      encrypt=lambda n, v, d=d: v if n == 9 else pdfcrypt.encrypt_value(d["enc"], n, 0, v), trailer_extra=te)
        except Exception:  # noqa
            continue
        for pw in (d["user"], "wrong"):
            def fn(data, pw=pw):
                from pdfminer.high_level import extract_text
                extract_text(io.BytesIO(data), password=pw)
            cls, det, calls = run_budgeted(fn, pdf, 5 * 10 ** 6)
            inp = {"seed": "crypt", "config": list(c10.CONFIGS[ci]), "path": [str(x) for x in p], "fault": repr(rep), "wrong_password": pw == "wrong"}
            ctx.case("fault", ("crypt", repr(inp)), nontrivial=True, sample={"input": inp, "outcome": cls} if cls != "ok" else None)
            ctx.histogram["outcome:" + cls] = ctx.histogram.get("outcome:" + cls, 0) + 1
            if cls in ("ok", "family"):
                continue
            fam = {"leak": "leak", "budget": "work", "timeout": "work", "recursion": "recursion", "memory": "work"}[cls]
            ctx.violation(fam, dict(inp, site=det, pdf=pdf.hex()), "returns or raises PSException", "%s %s" % (cls, det or ""),
                          "a damaged encryption dictionary: " + {"leak": "an internal error escaped the library's exception family"}.get(cls, cls))
    logging.disable(logging.NOTSET)


TOKEN = re.compile(rb"/[^\s/\[\]<>()%{}]*|[-+]?(?:\d+\.?\d*|\.\d+)|\((?:[^()\\]|\\.)*\)|<[0-9A-Fa-f\s]*>(?!>)")
TOKEN_REPL = [b"/Identity-H", b"5", b"-1", b"1.5", b"999999999999", b"/X", b"(str)", b"<FFFFFFFF>", b"[]", b"[1 2]", b"<< >>", b"<< /A 1 >>", b"null", b"true", b""]
# (seed, object, token index, replacement) of the payload faults that exposed a defect since repaired in /repo
PAYLOAD_CORPUS = [("seedp", 4, 41, b"1.5"), ("seedp", 4, 41, b"[]"), ("seedp", 4, 41, b"<< >>"), ("seed1", 9, 6, b"true"),
                  ("seed1", 9, 6, b"<FFFFFFFF>"), ("seedp", 6, 3, b""), ("seedp", 6, 29, b"999999999999"), ("seedp", 6, 28, b"-1"),
                  ("seedp", 8, 7, b"/Identity-H")]


def payload_streams(objs):
    """the streams whose payload is PDF/PostScript syntax (content streams, form XObjects, CMaps), stored plainly or
    through a single Flate filter: yields (object number, stream, decoded payload, re-encoder)"""
    for n, v in sorted(objs.items()):
        if not isinstance(v, Stream) or "Length1" in v.d or v.d.get("Subtype") == Name("Image"):
            continue
        f = v.d.get("Filter")
        if not f:
            d, enc = v.data, (lambda b: b)
        elif f in (Name("FlateDecode"), [Name("FlateDecode")]) and not v.d.get("DecodeParms"):
            try:
                d, enc = zlib.decompress(v.data), zlib.compress
            except zlib.error:
                continue
        else:
            continue
        if d and sum(1 for b in d if 32 <= b < 127 or b in (9, 10, 13)) > 0.9 * len(d):
            yield n, v, d, enc


def payload_cases(ctx, limit):
    """single faults INSIDE stream payloads: every operand token of every content stream, form and CMap stream of the
    seed documents (inline image dictionaries and ToUnicode sections included) replaced by a token of another type"""
    import logging
    logging.disable(logging.CRITICAL)
    eps = entry_points()
    if limit:
        eps = [eps[0], eps[3]]
    for sname, mk in SEEDS + [("seedp", seed_payload)]:
        objs = mk()
        pdf0 = write_pdf(objs, 1)
        base = {}
        for ename, fn in eps:
            cls, det, calls = run_budgeted(fn, pdf0, 10 ** 9)
            base[ename] = calls
            if cls != "ok":
                ctx.violation("seed", {"seed": sname, "entry": ename}, "ok", (cls, det), "the undamaged seed does not extract")
        jobs = []
        streams = {n: (v, d, enc) for n, v, d, enc in payload_streams(objs)}
        for n, (v, d, enc) in streams.items():
            toks = list(TOKEN.finditer(d))
            for k, m in enumerate(toks):
                for rep in TOKEN_REPL:
                    if rep != m.group(0):
                        jobs.append((n, k, rep))
        r = ctx.sub("payload", sname)
        r.shuffle(jobs)
        first = [(n, k, rep) for (s0, n, k, rep) in PAYLOAD_CORPUS if s0 == sname]
        if limit:
            jobs = jobs[:limit]
        jobs = first + [j for j in jobs if j not in first]
        for n, k, rep in jobs:
            if n not in streams:
                continue
            v, d, enc = streams[n]
            toks = list(TOKEN.finditer(d))
            if k >= len(toks):
                continue
            m = toks[k]
            o2 = dict(objs)
            o2[n] = Stream(v.d, enc(d[:m.start()] + rep + d[m.end():]))
            pdf = write_pdf(o2, 1)
            one(ctx, eps, base, sname, {"seed": sname, "object": n, "token": k, "was": m.group(0).decode("latin-1"), "fault": rep.decode("latin-1")}, pdf)
    logging.disable(logging.NOTSET)


def seed_payload():
    """a document whose payloads use every operand-bearing construct: inline images with filters and colour spaces,
    every ToUnicode / CMap section kind, usecmap, marked content with property lists, shading and XObject operators"""
    tu = (b"/CIDInit /ProcSet findresource begin 12 dict begin begincmap /CIDSystemInfo << /Registry (Adobe) /Ordering (UCS) "
          b"/Supplement 0 >> def /CMapName /Adobe-Identity-UCS def /CMapType 2 def 1 begincodespacerange <00> <FF> endcodespacerange "
          b"2 beginbfchar <41> <0041> <42> /B endbfchar 3 beginbfrange <43> <45> <0043> <46> <47> [<0046> <00470048>] <48> <49> <FFFE> endbfrange "
          b"1 begincidchar <4a> 74 endcidchar 1 begincidrange <4b> <4d> 75 endcidrange endcmap CMapName currentdict /CMap defineresource pop end end")
    enc = (b"/CIDInit /ProcSet findresource begin 12 dict begin begincmap /CMapName /Custom def /WMode 0 def /H usecmap "
           b"1 begincodespacerange <0000> <FFFF> endcodespacerange 1 begincidrange <0041> <0045> 100 endcidrange "
           b"1 begincidchar <0050> 200 endcidchar 1 beginnotdefrange <0000> <001f> 1 endnotdefrange endcmap end end")
    content = (b"q 1 0 0 1 10 10 cm /Cs1 cs 0.5 sc /GS0 gs BT /F1 12 Tf 10 100 Td (ABCDEFGHIJKLM) Tj /F2 10 Tf 0 -14 Td <00410050> Tj ET "
               b"BI /W 2 /H 2 /BPC 8 /CS /G /F [/AHx] /DP [null] ID 00ff00ff> EI "
               b"BI /W 2 /H 1 /BPC 8 /CS /RGB /F /A85 ID 5sdq,70~> EI "
               b"BI /W 8 /H 1 /BPC 1 /IM true /D [1 0] ID \xaa EI "
               b"/Tag << /MCID 0 >> BDC 0 0 5 5 re f EMC /Tag /P0 DP /Fm0 Do Q")
    return {
        1: {"Type": Name("Catalog"), "Pages": Ref(2)},
        2: {"Type": Name("Pages"), "Kids": [Ref(3)], "Count": 1},
        3: {"Type": Name("Page"), "Parent": Ref(2), "MediaBox": [0, 0, 300, 300], "Contents": Ref(4),
            "Resources": {"Font": {"F1": Ref(5), "F2": Ref(7)}, "ColorSpace": {"Cs1": Name("DeviceGray")},
                          "ExtGState": {"GS0": {"LW": 2}}, "XObject": {"Fm0": Ref(10)}, "Properties": {"P0": {"MCID": 1}}}},
        4: Stream({}, content),
        5: {"Type": Name("Font"), "Subtype": Name("Type1"), "BaseFont": Name("Helvetica"), "ToUnicode": Ref(6)},
        6: Stream({}, tu),
        7: {"Type": Name("Font"), "Subtype": Name("Type0"), "BaseFont": Name("Foo"), "Encoding": Ref(8), "DescendantFonts": [Ref(9)]},
        8: Stream({"Type": Name("CMap"), "CMapName": Name("Custom"), "CIDSystemInfo": {"Registry": b"Adobe", "Ordering": b"Japan1", "Supplement": 0}}, enc),
        9: {"Type": Name("Font"), "Subtype": Name("CIDFontType0"), "BaseFont": Name("Foo"),
            "CIDSystemInfo": {"Registry": b"Adobe", "Ordering": b"Japan1", "Supplement": 0}, "DW": 1000},
        10: Stream({"Type": Name("XObject"), "Subtype": Name("Form"), "BBox": [0, 0, 50, 50]}, b"0 0 m 10 10 l S BT /F1 9 Tf (A) Tj ET"),
    }


def one(ctx, eps, base, sname, inp, pdf):
    for ename, fn in eps:
        budget = 40 * base[ename] + 200000
        cls, det, calls = run_budgeted(fn, pdf, budget)
        fam = {"ok": "fault", "family": "fault", "leak": "leak", "budget": "work", "timeout": "work", "recursion": "recursion", "memory": "work"}[cls]
        ctx.case("fault", (sname, repr(inp), ename), nontrivial=True,
                 sample={"input": inp, "entry": ename, "outcome": cls} if cls not in ("ok",) else None)
        ctx.histogram["outcome:" + cls] = ctx.histogram.get("outcome:" + cls, 0) + 1
        if cls in ("ok", "family"):
            continue
        what = {"leak": "an internal error escaped the library's exception family",
                "budget": "work is not bounded in proportion to the undamaged document",
                "timeout": "extraction hangs", "recursion": "the interpreter's recursion limit was exhausted",
                "memory": "memory exhausted"}[cls]
        ctx.violation(fam, dict(inp, entry=ename, site=det, pdf=pdf.hex()), "returns or raises PSException", "%s %s" % (cls, det or ""), what)


# ------------------------------------------------------------------ guards against the model
def guard_cases(ctx, n):
    from pdfminer.pdfparser import PDFParser
    from pdfminer.pdfdocument import PDFDocument
    from pdfminer.pdftypes import resolve1, PDFObjRef
    from pdfminer.high_level import extract_pages
    from pdfminer.layout import LTFigure
    cases = []
    for i in range(n):
        r = ctx.sub("chain", i)
        k = r.choice([0, 1, 2, 50, 95, 99, 100, 101, 102, 105, 150])
        cyc = r.random() < 0.3
        objs = {1: {"Type": Name("Catalog"), "Pages": Ref(2)}, 2: {"Type": Name("Pages"), "Kids": [], "Count": 0}}
        for j in range(k):
            objs[100 + j] = Ref(100 + j + 1)
        objs[100 + k] = Ref(100 + r.randrange(k + 1)) if cyc else 4242
        doc = PDFDocument(PDFParser(io.BytesIO(write_pdf(objs, 1))))
        got = resolve1(PDFObjRef(doc, 100), default=-7)
        ctx.case("chain", (k, cyc), nontrivial=k > 90)
        store = glist(["(%d, %s)" % (n_, ("ORef %d" % v.n) if isinstance(v, Ref) else "OVal %d" % v) for n_, v in sorted(objs.items()) if n_ >= 100])
        cases.append(("(%s, 100)" % store, CZ(got if isinstance(got, int) else -99)))
        if not cyc and k + 1 <= 100 and got != 4242:
            ctx.violation("chain", {"length": k}, 4242, got, "a chain of at most 100 references is not followed to its end")
    bad = common.coq_cases("c13r", ["Model.Guards", "Model.GuardsRun"], "run_resolve", cases, shard=100)
    for j, shown in sorted(bad.items()):
        ctx.disagree("chain", {"case": cases[j][0][:200]}, shown, cases[j][1])
    fcases = []
    for i in range(n):
        r = ctx.sub("forms", i)
        m = r.randint(1, 6)
        edges = {f: [r.randrange(m) for _ in range(r.randint(0, 3))] for f in range(m)}
        objs = {1: {"Type": Name("Catalog"), "Pages": Ref(2)}, 2: {"Type": Name("Pages"), "Kids": [Ref(3)], "Count": 1},
                3: {"Type": Name("Page"), "Parent": Ref(2), "MediaBox": [0, 0, 100, 100], "Contents": Ref(4),
                    "Resources": {"XObject": {"X0": Ref(10)}}}, 4: Stream({}, b"/X0 Do")}
        for f in range(m):
            objs[10 + f] = Stream({"Type": Name("XObject"), "Subtype": Name("Form"), "BBox": [0, 0, 10, 10],
                                   "Resources": {"XObject": {"X%d" % g: Ref(10 + g) for g in range(m)}}},
                                  b" ".join(b"/X%d Do" % g for g in edges[f]))
        try:
            page = list(extract_pages(io.BytesIO(write_pdf(objs, 1))))[0]
        except BaseException as e:  # noqa
            ctx.violation("forms", {"edges": edges}, "a page", type(e).__name__, "a (cyclic) form graph is not rendered")
            continue
        order = []

        def walk(c):
            for o in c:
                if isinstance(o, LTFigure):
                    order.append(int(o.name[1:]))
                    walk(o)
        walk(page)
        ctx.case("forms", repr(edges), nontrivial=any(edges.values()), sample={"edges": edges, "order": order})
        fcases.append(("(%s, %d%%nat)" % (glist(["(%d, %s)" % (f, glist([str(g) for g in gs])) for f, gs in edges.items()]), m + 1),
                       CLs([CZ(x) for x in order])))
    bad = common.coq_cases("c13f", ["Model.Guards", "Model.GuardsRun"], "run_descend", fcases, shard=100)
    for j, shown in sorted(bad.items()):
        ctx.disagree("forms", {"case": fcases[j][0][:200]}, shown, fcases[j][1])


def xchain_cases(ctx, n):
    """the chain of cross-reference sections: files of 2-4 revisions whose /Prev and /XRefStm entries are redirected to
    arbitrary sections of the same file (cycles, self-links, shared tails); the order in which PDFDocument reads the
    sections (observed by wrapping read_xref_from) is compared with Model/Guards.xread"""
    import random
    import re
    from pdfminer.pdfparser import PDFParser
    from pdfminer.pdfdocument import PDFDocument
    from pdfwriter import write_history
    cases = []
    for i in range(n):
        r = ctx.sub("xchain", i)
        nrev = r.randint(2, 4)
        revs = []
        for k in range(nrev):
            defs = {1: {"Type": Name("Catalog"), "Pages": Ref(2)}, 2: {"Type": Name("Pages"), "Kids": [], "Count": 0}} if k == 0 else {}
            defs[10 + k] = {"Rev": k}
            form = r.choice(["table", "stream", "hybrid"])
            revs.append({"defs": defs, "form": form, "packed": {10 + k} if form != "table" else set(), "root": 1})
        seed = r.randrange(10 ** 6)

        def build(mutate):
            return write_history([dict(x, defs=dict(x["defs"])) for x in revs], random.Random(seed), mutate=mutate)[0]
        # first pass: where the sections are and which dictionaries carry links
        holders = []

        def record(kind, d):
            if kind in ("trailer", "xrefstream", "hybridtrailer"):
                holders.append((kind, dict(d)))
        pdf0 = build(record)
        starts = [int(m) for m in re.findall(rb"startxref\s+(\d+)", pdf0)]
        targets = sorted(set(starts) | {d["XRefStm"] for k, d in holders if "XRefStm" in d})
        plan = {}
        for idx, (kind, d) in enumerate(holders):
            for key in ("Prev", "XRefStm"):
                if key in d and r.random() < 0.7:
                    same = [t for t in targets if len(str(t)) == len(str(d[key]))]
                    plan[(idx, key)] = r.choice(same)
        count = [0]

        def mutate(kind, d):
            if kind in ("trailer", "xrefstream", "hybridtrailer"):
                idx = count[0]
                count[0] += 1
                for key in ("Prev", "XRefStm"):
                    if (idx, key) in plan and key in d:
                        d[key] = plan[(idx, key)]
        pdf = build(mutate)
        if [int(m) for m in re.findall(rb"startxref\s+(\d+)", pdf)] != starts:
            continue                                   # the edit moved a section: not the file that was planned
        # the links as written: parse every section's trailer dictionary with the implementation's own reader order in mind
        links = {}
        for t in targets:
            seg = pdf[t:t + 4000]
            m_tr = re.search(rb"trailer\s*<<(.*?)>>", seg, re.S) if seg.startswith(b"xref") else re.search(rb"<<(.*?)>>\s*stream", seg, re.S)
            body = m_tr.group(1) if m_tr else b""
            nxt = []
            for key in (b"XRefStm", b"Prev"):
                mm = re.search(rb"/" + key + rb"\s+(\d+)", body)
                if mm:
                    nxt.append(int(mm.group(1)))
            links[t] = nxt
        seen = []
        orig = PDFDocument.read_xref_from

        def spy(self, parser, start, xrefs, *a, **kw):
            seen.append(start)
            return orig(self, parser, start, xrefs, *a, **kw)
        PDFDocument.read_xref_from = spy
        try:
            try:
                PDFDocument(PDFParser(io.BytesIO(pdf)))
                outcome = "ok"
            except RecursionError:
                outcome = "recursion"
            except BaseException as e:  # noqa
                outcome = type(e).__name__
        finally:
            PDFDocument.read_xref_from = orig
        first = []
        for s_ in seen:
            if s_ not in first:
                first.append(s_)
        ctx.case("xchain", (i, tuple(sorted(plan.items()))), nontrivial=bool(plan), sample={"links": {str(k): v for k, v in links.items()}, "read": first})
        if outcome == "recursion":
            ctx.violation("recursion", {"pdf": pdf.hex(), "links": {str(k): v for k, v in links.items()}}, "terminates", outcome,
                          "a cycle of /Prev or /XRefStm links exhausts the recursion limit")
            continue
        if len(first) != len(set(first)) or any(seen.count(x) > 1 + sum(1 for v in links.values() for y in v if y == x) for x in first):
            ctx.violation("xchain", {"pdf": pdf.hex()}, "each section read once", seen, "a section is read more than once")
        edges = glist(["(%d, %s)" % (t, glist([str(x) for x in nx])) for t, nx in sorted(links.items())])
        cases.append(("(%s, %d)" % (edges, starts[-1]), CLs([CZ(x) for x in first])))
    bad = common.coq_cases("c13x", ["Model.Guards", "Model.GuardsRun"], "run_xread", cases, shard=100)
    for j, shown in sorted(bad.items()):
        ctx.disagree("xchain", {"case": cases[j][0][:300]}, shown, cases[j][1])


def special_cases(ctx):
    """documents outside the single-fault families that once exposed a defect (double faults, API walks); every tier"""
    from pdfminer.psexceptions import PSException
    from pdfminer.pdfparser import PDFParser, PDFStreamParser
    from pdfminer.pdfdocument import PDFDocument
    from pdfminer.high_level import extract_text
    base = {1: {"Type": Name("Catalog"), "Pages": Ref(2)}, 2: {"Type": Name("Pages"), "Kids": [Ref(3)], "Count": 1},
            3: {"Type": Name("Page"), "Parent": Ref(2), "MediaBox": [0, 0, 200, 200], "Contents": Ref(4), "Resources": {"Font": {"F1": Ref(5)}}},
            4: Stream({}, b"BT /F1 12 Tf 10 100 Td <00410042> Tj ET")}
    f0 = dict(base)
    f0[5] = {"Type": Name("Font"), "Subtype": Name("Type0"), "BaseFont": Name("Foo"), "ToUnicode": Name("Identity-H"), "DescendantFonts": [Ref(6)]}
    f0[6] = {"Type": Name("Font"), "Subtype": Name("CIDFontType2"), "BaseFont": Name("Foo"), "DW": 1000,
             "CIDSystemInfo": {"Registry": b"Adobe", "Ordering": b"Japan1", "Supplement": 0}}
    ol = dict(base)
    ol[5] = {"Type": Name("Font"), "Subtype": Name("Type1"), "BaseFont": Name("Helvetica")}
    ol[1] = dict(base[1], Outlines=Ref(7))
    ol[7] = {"First": Ref(8), "Last": Ref(9)}
    ol[8] = {"Title": b"A", "Dest": [Ref(3)], "Next": Ref(9), "First": Ref(10), "Last": Ref(10)}
    ol[9] = {"Title": b"B", "Dest": [Ref(3)], "Next": Ref(8)}
    ol[10] = {"Title": b"A1", "Dest": [Ref(3)], "Next": Ref(10)}

    def outlines(pdf):
        return [t for _, t, _, _, _ in PDFDocument(PDFParser(io.BytesIO(pdf))).get_outlines()]

    def stream_r(_):
        p = PDFStreamParser(b"R 9 0 <<>> 5 R")
        try:
            while True:
                p.nextobject()
        except PSException:
            pass
    for name, fn, pdf in (("type0-toUnicode-name-no-encoding", lambda b: extract_text(io.BytesIO(b)), write_pdf(f0, 1)),
                          ("outline-next-cycle", outlines, write_pdf(ol, 1)), ("payload-starts-with-R", stream_r, b"")):
        cls, det, calls = run_budgeted(fn, pdf, 2000000)
        ctx.case("special", name, nontrivial=True, sample={"case": name, "outcome": cls})
        if cls not in ("ok", "family"):
            ctx.violation("leak" if cls == "leak" else "recursion" if cls == "recursion" else "work", {"special": name, "site": det, "pdf": pdf.hex()},
                          "returns or raises PSException", "%s %s" % (cls, det or ""), "a recorded special case fails again")


def correspondence(ctx):
    guard_cases(ctx, ctx.n(60, 600))
    xchain_cases(ctx, ctx.n(60, 600))
    fault_cases(ctx, ctx.n(220, 0), ctx.n(12, 60))
    struct_cases(ctx, ctx.n(60, 0))
    crypt_cases(ctx, ctx.n(80, 0))
    payload_cases(ctx, ctx.n(150, 0))
    special_cases(ctx)


def oracle(ctx):
    pass


def known_match(finding, item):
    if item.get("kind") != "property":
        return False
    if finding.get("family") == "leak" and item.get("family") == "leak":
        return item.get("input", {}).get("site") in finding.get("sites", [])
    if finding.get("family") == "work" and item.get("family") == "work":
        return finding.get("match") in str(item.get("input", {}))
    return False


def confirm_known(ctx, finding):
    return False


def replay(ctx, data):
    item = data.get("violation") or (data.get("correspondence_disagreements") or [None])[0]
    print("replay: re-run ./check C13; stored case:", str(item)[:1500])


if __name__ == "__main__":
    sys.exit(common.main(sys.modules[__name__]))
