#!/usr/bin/env python3
"""C15 -- filesystem confinement: documents cannot steer file access outside allowed directories (DESIGN.md section 4, C15)."""
import gzip
import io
import os
import pickle
import shutil
import sys

sys.path.insert(0, os.path.dirname(os.path.abspath(__file__)))
import common
from common import CZ, CLs, glist
from pdfwriter import Name, Ref, Stream, write_pdf

PROP = "C15"
GEN = []
PROPS_FILE = "theories/Props/C15.v"
COQ_TARGETS = ["theories/Props/C15.vo", "theories/Model/PathsRun.vo"]
DRIVER = None
LEVEL = "proof"
RULE = ("documents whose CID-font /Encoding names, embedded CMap /CMapName and usecmap operands, CIDSystemInfo "
        "Registry/Ordering strings, ToUnicode names, font names and image / form XObject resource names range over "
        "hostile strings (../ chains, absolute paths to a bait pickle and bait files planted by the harness, back "
        "slashes, NUL bytes, '.', '..', empty, 300-character names, names equal to existing files); processed with "
        "extract_text_to_fp with and without output_dir while a sys.addaudithook records every open / os.* / shutil "
        "event; allowed: the cmap resource directories (read), the chosen output directory (create, never overwrite). "
        "CMapDB._load_data and ImageWriter._create_unique_image_name also compared with Model/Paths.v in Coq. "
        "Non-trivial: a name containing a separator or NUL.")
TRUSTED = [
    "modelled by hand: CMapDB._load_data's name check and path construction, ImageWriter._create_unique_image_name's "
    "sanitising, os.path.join / basename / normpath for POSIX (Model/Paths.v)",
    "that no other code path touches the filesystem is observed (CPython audit events open, os.mkdir, os.rename, "
    "os.remove, os.listdir, shutil.*, ...), not proved; interpreter-internal imports (*.py, *.pyc, *.so) are not counted",
]
ASSUMPTIONS = ["POSIX path semantics (os.sep = '/')"]
MANIFEST_ENTRY = {
    "category": "proof",
    "technique": "Coq proofs over a model of POSIX path joining and resolution (a separator-free name joined to a directory "
                 "resolves to a direct child; the CMap loader refuses every other name; the image writer's sanitiser yields "
                 "separator-free names) + audit-hook observation of real runs on hostile documents",
    "text": "Theorems: for every name, every path CMapDB may open is <resource dir>/<name>.pickle.gz with a separator-free "
            "name, resolving to a direct child of a resource directory; every image file path resolves to a direct child of "
            "the output directory. Observed: no other file is opened, nothing is created outside the output directory, "
            "existing files are not overwritten.",
    "note": "Trusted: Coq kernel, the POSIX path model, CPython's audit events.",
    "design_ref": "DESIGN.md section 4, C15",
}

WORKDIR = os.path.join(common.WORK, "c15")
EVENTS = []
RECORD = [False]


def hook(event, args):
    if not RECORD[0]:
        return
    if event == "open" or event.startswith("os.") or event.startswith("shutil.") or event.startswith("glob."):
        try:
            EVENTS.append((event, tuple(a if isinstance(a, (str, bytes, int, type(None))) else repr(a) for a in args)))
        except Exception:  # noqa
            pass


_installed = [False]


def install_hook():
    if not _installed[0]:
        sys.addaudithook(hook)
        _installed[0] = True


def hostile_names(r, bait_dir):
    rel = os.path.relpath(bait_dir, start="/")
    cmapdir = os.path.join(os.path.dirname(__import__("pdfminer").__file__), "cmap")
    up_from_cmap = os.path.relpath(os.path.join(bait_dir, "evil"), start=cmapdir)
    return [
        os.path.join(bait_dir, "evil"), up_from_cmap, "../" * 12 + rel + "/evil", "..", ".", "", "a/b", "a\\b", "../x",
        "/etc/passwd", "x\0y", "\0", "../" * 3 + "x\0", "A" * 300, "H", "Identity-H", "90ms-RKSJ-H", "Adobe-Japan1",
        "to-unicode-Adobe-Japan1", bait_dir + "/evil\0", "evil", "./H", "H/../H", "cmap/../H",
    ]


def make_doc(r, enc_name, ordering, xname, tounicode_name, usecmap_name):
    objs = {1: {"Type": Name("Catalog"), "Pages": Ref(2)}, 2: {"Type": Name("Pages"), "Kids": [Ref(3)], "Count": 1}}
    cmap_stream = (b"/CIDInit /ProcSet findresource begin 12 dict begin begincmap /" + b"".join(b"#%02X" % c for c in usecmap_name.encode("latin-1", "replace"))
                   + b" usecmap /CMapName /Foo def 1 begincodespacerange <00> <FF> endcodespacerange endcmap end end")
    enc_obj = Name(enc_name.encode("latin-1", "replace")) if r.random() < 0.7 else Ref(9)
    objs[9] = Stream({"Type": Name("CMap"), "CMapName": Name(enc_name.encode("latin-1", "replace"))}, cmap_stream)
    objs[10] = {"Type": Name("Font"), "Subtype": Name("Type0"), "BaseFont": Name(xname.encode("latin-1", "replace")[:100] or b"F"),
                "Encoding": enc_obj, "DescendantFonts": [Ref(11)]}
    if r.random() < 0.5:
        objs[10]["ToUnicode"] = Name(tounicode_name.encode("latin-1", "replace")) if r.random() < 0.5 else Ref(13)
        objs[13] = Stream({}, cmap_stream)
    objs[11] = {"Type": Name("Font"), "Subtype": Name("CIDFontType2"), "BaseFont": Name("Foo"),
                "CIDSystemInfo": {"Registry": ordering.encode("latin-1", "replace"), "Ordering": ordering.encode("latin-1", "replace"), "Supplement": 0},
                "FontDescriptor": {"Type": Name("FontDescriptor"), "FontName": Name(xname.encode("latin-1", "replace")[:100] or b"F"),
                                   "Flags": 4, "FontBBox": [0, 0, 1000, 1000], "Ascent": 800, "Descent": -200}}
    img = Stream({"Type": Name("XObject"), "Subtype": Name("Image"), "Width": 2, "Height": 2, "ColorSpace": Name("DeviceGray"),
                  "BitsPerComponent": 8}, b"abcd")
    jpg = Stream({"Type": Name("XObject"), "Subtype": Name("Image"), "Width": 2, "Height": 2, "ColorSpace": Name("DeviceRGB"),
                  "BitsPerComponent": 8, "Filter": Name("DCTDecode")}, b"\xff\xd8\xff\xd9")
    form = Stream({"Type": Name("XObject"), "Subtype": Name("Form"), "BBox": [0, 0, 10, 10], "Resources": {"XObject": {Name(xname.encode("latin-1", "replace")): Ref(20)}}},
                  b"/" + b"".join(b"#%02X" % c for c in xname.encode("latin-1", "replace")) + b" Do")
    objs[20], objs[21], objs[22] = img, jpg, form
    xn = b"".join(b"#%02X" % c for c in xname.encode("latin-1", "replace"))
    content = b"BT /F1 10 Tf 50 700 Td <00410042> Tj ET q 10 0 0 10 50 50 cm /" + xn + b" Do Q q 10 0 0 10 80 50 cm /J" + xn + b" Do Q /Fm Do"
    objs[4] = Stream({}, content)
    objs[3] = {"Type": Name("Page"), "Parent": Ref(2), "MediaBox": [0, 0, 612, 792], "Contents": Ref(4),
               "Resources": {"Font": {"F1": Ref(10)}, "XObject": {Name(xname.encode("latin-1", "replace")): Ref(20),
                                                                    Name(b"J" + xname.encode("latin-1", "replace")): Ref(21), "Fm": Ref(22)}}}
    return write_pdf(objs, 1)


def real(p):
    if isinstance(p, bytes):
        p = os.fsdecode(p)
    return os.path.realpath(p) if isinstance(p, str) else None


def doc_cases(ctx, n):
    import pdfminer
    from pdfminer.high_level import extract_text_to_fp
    from pdfminer.cmapdb import CMapDB
    install_hook()
    cmapdir = real(os.path.join(os.path.dirname(pdfminer.__file__), "cmap"))
    allowed_read = [cmapdir, real("/usr/share/pdfminer")]
    shutil.rmtree(WORKDIR, ignore_errors=True)
    bait_dir = os.path.join(WORKDIR, "bait")
    os.makedirs(bait_dir)
    with gzip.open(os.path.join(bait_dir, "evil.pickle.gz"), "wb") as f:
        f.write(pickle.dumps({"CODE2CID": {0: {65: 1}}, "IS_VERTICAL": False, "CID2UNICHR_H": {1: "X"}, "CID2UNICHR_V": {1: "X"}}))
    # warm-up: imports and benign resource loads happen before recording
    warm = make_doc(ctx.sub("warm"), "Identity-H", "Identity", "Im0", "Identity-H", "H")
    extract_text_to_fp(io.BytesIO(warm), io.StringIO(), output_dir=os.path.join(WORKDIR, "warm"))
    for i in range(n):
        r = ctx.sub("doc", i)
        names = hostile_names(r, bait_dir)
        enc_name, ordering, xname, tun, ucn = (r.choice(names) for _ in range(5))
        pdf = make_doc(r, enc_name, ordering, xname, tun, ucn)
        outdir = os.path.join(WORKDIR, "out%d" % (i % 8))
        shutil.rmtree(outdir, ignore_errors=True)
        use_out = r.random() < 0.7
        pre = {}
        if use_out:
            os.makedirs(outdir)
            if r.random() < 0.5:
                for nm in ("x.bmp", "Im0.bmp", "evil.bmp", "...bmp", "_.bmp"):
                    pre[nm] = b"keep " + nm.encode()
                    open(os.path.join(outdir, nm), "wb").write(pre[nm])
        outside_before = snapshot_outside(bait_dir)
        CMapDB._cmap_cache.clear()
        CMapDB._umap_cache.clear()
        EVENTS.clear()
        RECORD[0] = True
        err = None
        try:
            extract_text_to_fp(io.BytesIO(pdf), io.StringIO(), output_dir=outdir if use_out else None)
        except BaseException as e:  # noqa
            err = type(e).__name__ + ": " + str(e)[:100]
        finally:
            RECORD[0] = False
        evs = list(EVENTS)
        fam = "hostile"
        inp = {"encoding": enc_name, "ordering": ordering, "xobject": xname, "tounicode": tun, "usecmap": ucn, "output_dir": use_out, "pdf": pdf.hex()}
        ctx.case(fam, pdf, nontrivial=any(("/" in s or "\0" in s or "\\" in s) for s in (enc_name, ordering, xname, tun, ucn)),
                 sample={"encoding": enc_name[:40], "xobject": xname[:40], "events": len(evs), "error": err})
        for ev, args in evs:
            path = args[0] if args else None
            if not isinstance(path, (str, bytes)):
                continue
            rp = real(path)
            if rp is None:
                continue
            if rp.endswith((".py", ".pyc", ".so", ".pth")) or "__pycache__" in rp:
                continue
            writing = ev != "open" or (len(args) > 1 and isinstance(args[1], str) and any(c in args[1] for c in "wax+"))
            inside_out = use_out and (rp == real(outdir) or rp.startswith(real(outdir) + os.sep))
            inside_cmap = any(a and (rp == a or rp.startswith(a + os.sep)) for a in allowed_read)
            if writing:
                if not inside_out:
                    ctx.violation(fam, inp, "writes only inside the output directory", "%s %r" % (ev, path), "file system modified outside the output directory")
            elif ev == "open" and not (inside_out or inside_cmap):
                ctx.violation(fam, inp, "reads only inside the resource directories", "%s %r" % (ev, path), "a file outside the allowed directories was opened")
        for nm, content in pre.items():
            try:
                if open(os.path.join(outdir, nm), "rb").read() != content:
                    ctx.violation(fam, inp, "existing file untouched", nm, "an existing file was overwritten")
            except OSError:
                ctx.violation(fam, inp, "existing file untouched", nm, "an existing file disappeared")
        if snapshot_outside(bait_dir) != outside_before:
            ctx.violation(fam, inp, "nothing new beside the output directory", sorted(set(snapshot_outside(bait_dir)) - set(outside_before))[:5],
                          "files were created outside the output directory")
        if use_out:
            for root, dirs, files in os.walk(outdir):
                if dirs:
                    ctx.violation(fam, inp, "a flat output directory", dirs, "sub-directories created from a document-controlled name")
    shutil.rmtree(WORKDIR, ignore_errors=True)


def snapshot_outside(bait_dir):
    out = []
    for d in (WORKDIR, bait_dir, os.path.dirname(WORKDIR)):
        if os.path.isdir(d):
            out += [(d, f) for f in sorted(os.listdir(d)) if not f.startswith("out") and f not in ("cases",)]
    return out


def gs_(s):
    return "[" + "; ".join(str(ord(c)) for c in s) + "]"


def model_cases(ctx, n):
    """CMapDB._load_data and _create_unique_image_name against the model (paths observed through os.path.exists)"""
    import pdfminer.cmapdb as cm
    import pdfminer.image as im
    cases_c, cases_i = [], []
    r0 = ctx.sub("names")
    pool = hostile_names(r0, "/nonexistent/bait") + ["".join(r0.choice("ab/.\\\0_-") for _ in range(r0.randint(0, 8))) for _ in range(n)]
    dirs = ["/usr/share/pdfminer/", os.path.join(os.path.dirname(cm.__file__), "cmap")]
    for name in pool:
        seen = []
        real_exists = os.path.exists

        def fake_exists(p):
            seen.append(p)
            return False
        os.environ.pop("CMAP_PATH", None)
        cm.os.path.exists = fake_exists
        try:
            try:
                cm.CMapDB._load_data(name)
            except cm.CMapDB.CMapNotFound:
                pass
            except BaseException as e:  # noqa
                ctx.violation("load_data", {"name": name}, "CMapNotFound", type(e).__name__, "_load_data raised something else")
        finally:
            cm.os.path.exists = real_exists
        ctx.case("load_data", name, nontrivial="/" in name or "\0" in name)
        cases_c.append(("(%s, %s)" % (glist([gs_(d) for d in dirs]), gs_(name)), CLs([CLs([CZ(ord(c)) for c in p]) for p in seen])))

        class Img:
            pass
        img = Img()
        img.name = name
        w = im.ImageWriter.__new__(im.ImageWriter)
        w.outdir = "/nonexistent/out"
        seen2 = []

        def fake_exists2(p):
            seen2.append(p)
            return False
        im.os.path.exists = fake_exists2
        try:
            nm, path = w._create_unique_image_name(img, ".bmp")
        except BaseException as e:  # noqa
            ctx.violation("image_name", {"name": name}, "a path", type(e).__name__, "_create_unique_image_name raised")
            path = None
        finally:
            im.os.path.exists = real_exists
        ctx.case("image_name", name, nontrivial="/" in name or "\0" in name)
        if path is not None:
            if os.path.dirname(os.path.normpath(path)) != "/nonexistent/out":
                ctx.violation("image_name", {"name": name}, "/nonexistent/out/<file>", path, "image path leaves the output directory")
            cases_i.append(("(%s, %s, %s)" % (gs_("/nonexistent/out"), gs_(name), gs_(".bmp")), CLs([CZ(ord(c)) for c in path])))
    for tag, fn, cs in (("c15c", "run_cmap_paths", cases_c), ("c15i", "run_image_path", cases_i)):
        bad = common.coq_cases(tag, ["Model.Paths", "Model.PathsRun"], fn, cs, shard=200)
        for j, shown in sorted(bad.items()):
            ctx.disagree(fn, {"case": cs[j][0][:300]}, shown[:300], cs[j][1][:300])
    # the path model against os.path on random paths
    ncases = []
    for k in range(n):
        r = ctx.sub("norm", k)
        p = "/" + "/".join(r.choice(["a", "b", "..", ".", "", "c.d", "..."]) for _ in range(r.randint(0, 6)))
        want = [c for c in os.path.normpath(p).split("/") if c]
        ncases.append((gs_(p), CLs([CLs([CZ(ord(c)) for c in comp]) for comp in want])))
        ctx.case("normpath", p, nontrivial=".." in p)
    bad = common.coq_cases("c15n", ["Model.Paths", "Model.PathsRun"], "run_normpath", ncases, shard=500)
    for j, shown in sorted(bad.items()):
        ctx.disagree("normpath", {"case": ncases[j][0]}, shown, ncases[j][1])


def correspondence(ctx):
    model_cases(ctx, ctx.n(150, 3000))
    doc_cases(ctx, ctx.n(120, 2500))


def oracle(ctx):
    pass


def known_match(finding, item):
    return False


def confirm_known(ctx, finding):
    return False


def replay(ctx, data):
    item = data.get("violation") or (data.get("correspondence_disagreements") or [None])[0]
    print("replay: re-run ./check C15; stored case:", str(item)[:1500])


if __name__ == "__main__":
    sys.exit(common.main(sys.modules[__name__]))
