"""Minimal PDF writer used by the correspondence harnesses (trusted test infrastructure, DESIGN.md 2.4).
Values: None, bool, int, float, Name, bytes (string), list, dict (keys: str/bytes names), Ref, Stream, Raw."""
import zlib


class Name:
    def __init__(self, b):
        self.b = b.encode("latin-1") if isinstance(b, str) else bytes(b)

    def __eq__(self, o):
        return isinstance(o, Name) and o.b == self.b

    def __hash__(self):
        return hash(self.b)

    def __repr__(self):
        return "/" + self.b.decode("latin-1")


class Ref:
    def __init__(self, n, g=0):
        self.n, self.g = n, g

    def __repr__(self):
        return "%d %d R" % (self.n, self.g)


class Raw:
    """bytes written verbatim"""
    def __init__(self, b):
        self.b = b


class Stream:
    def __init__(self, d, data, set_length=True):
        self.d, self.data, self.set_length = dict(d), data, set_length


def ser_name(b):
    out = b"/"
    for c in b:
        if 0x21 <= c <= 0x7e and c not in b"#/%[]()<>{}":
            out += bytes([c])
        else:
            out += b"#%02x" % c
    return out


def ser_string(s):
    out = b"("
    for c in s:
        if c in b"()\\":
            out += b"\\" + bytes([c])
        elif c == 13:
            out += b"\\r"
        else:
            out += bytes([c])
    return out + b")"


def ser_num(x):
    if isinstance(x, bool):
        return b"true" if x else b"false"
    if isinstance(x, int):
        return b"%d" % x
    from fractions import Fraction
    if isinstance(x, Fraction):
        if x.denominator == 1:
            return b"%d" % x.numerator
        x = float(x)
    s = repr(float(x))
    if "e" in s or "E" in s or "inf" in s or "nan" in s:
        s = "%.10f" % x
    return s.encode()


def ser(v):
    if v is None:
        return b"null"
    if isinstance(v, Raw):
        return v.b
    if isinstance(v, (bool, int, float)) or type(v).__name__ == "Fraction":
        return ser_num(v)
    if isinstance(v, Name):
        return ser_name(v.b)
    if isinstance(v, (bytes, bytearray)):
        return ser_string(bytes(v))
    if isinstance(v, Ref):
        return b"%d %d R" % (v.n, v.g)
    if isinstance(v, (list, tuple)):
        return b"[" + b" ".join(ser(x) for x in v) + b"]"
    if isinstance(v, dict):
        parts = []
        for k, x in v.items():
            kb = k.b if isinstance(k, Name) else (k.encode("latin-1") if isinstance(k, str) else k)
            parts.append(ser_name(kb) + b" " + ser(x))
        return b"<< " + b" ".join(parts) + b" >>"
    if isinstance(v, Stream):
        d = dict(v.d)
        if v.set_length:
            d["Length"] = len(v.data)
        return ser(d) + b"\nstream\n" + v.data + b"\nendstream"
    raise TypeError("cannot serialise %r" % (v,))


def write_pdf(objects, root, info=None, extra_trailer=None, eol=b"\n", header=b"%PDF-1.4\n"):
    """objects: {objid: value} -> bytes with a classic cross-reference table"""
    out = bytearray(header)
    offsets = {}
    for n in sorted(objects):
        offsets[n] = len(out)
        out += b"%d 0 obj\n" % n + ser(objects[n]) + b"\nendobj\n"
    xref = len(out)
    size = max(objects) + 1 if objects else 1
    out += b"xref\n0 %d\n" % size
    for n in range(size):
        if n == 0 or n not in offsets:
            out += b"0000000000 65535 f \n"
        else:
            out += b"%010d 00000 n \n" % offsets[n]
    tr = {"Size": size, "Root": Ref(root)}
    if info is not None:
        tr["Info"] = Ref(info)
    if extra_trailer:
        tr.update(extra_trailer)
    out += b"trailer\n" + ser(tr) + b"\nstartxref\n%d\n%%%%EOF\n" % xref
    return bytes(out)


FONT_HELV = {"Type": Name("Font"), "Subtype": Name("Type1"), "BaseFont": Name("Helvetica")}


def simple_page_doc(contents_list, mediabox=(0, 0, 612, 792), fonts=None, page_extra=None):
    """one document, one page per entry of contents_list (bytes); returns (bytes, objects)"""
    objs = {1: {"Type": Name("Catalog"), "Pages": Ref(2)}}
    fonts = fonts or {"F1": FONT_HELV}
    fid = 3
    fontrefs = {}
    for k, f in fonts.items():
        objs[fid] = f
        fontrefs[k] = Ref(fid)
        fid += 1
    kids = []
    nid = fid
    for c in contents_list:
        objs[nid] = Stream({}, c)
        page = {"Type": Name("Page"), "Parent": Ref(2), "MediaBox": list(mediabox), "Contents": Ref(nid),
                "Resources": {"Font": dict(fontrefs)}}
        if page_extra:
            page.update(page_extra)
        objs[nid + 1] = page
        kids.append(Ref(nid + 1))
        nid += 2
    objs[2] = {"Type": Name("Pages"), "Kids": kids, "Count": len(kids)}
    return write_pdf(objs, 1), objs


# ---------------------------------------------------------------------------------------------------
# Revision histories in every physical form (C02).
def _be(v, w):
    return int(v).to_bytes(w, "big") if w else b""


def write_history(revisions, r, header=b"%PDF-1.5\n", encrypt=None, trailer_extra=None, mutate=None):
    """revisions: list (oldest first) of dicts {defs: {objid: value}, form: table|stream|hybrid,
    packed: set(objids stored in object streams), eol: b'\\n'|b'\\r\\n'|b'\\r', root: objid, info: objid|None}.
    `r` is a random.Random used for the writer's free choices (W widths, /Index partition, subsection splits).
    Returns (bytes, layout) with layout = list of sections NEWEST FIRST in the order pdfminer consults them:
      ("table", {objid: (pos, gen)}) | ("stream", ranges, (w1, w2, w3), data_bytes, {objid: entry})
    and layout_content = {pos: (objid, kind, payload)}."""
    out = bytearray(header)
    sections_per_rev = []
    content = {}
    prev = None
    fresh = [max([0] + [n for rev in revisions for n in rev["defs"]]) + 1000]
    maxid = 0
    for rev in revisions:
        eol = rev.get("eol", b"\n")
        direct, packed = {}, {}
        for n, v in rev["defs"].items():
            (packed if (n in rev.get("packed", ()) and rev["form"] != "table" and not isinstance(v, Stream)) else direct)[n] = v
        offsets = {}
        # object streams (at most two)
        stm_entries = {}
        if packed:
            ids = sorted(packed)
            groups = [ids] if len(ids) < 2 or r.random() < 0.5 else [ids[:len(ids) // 2], ids[len(ids) // 2:]]
            for g in groups:
                fresh[0] += 1
                sid = fresh[0]
                body = b""
                hdr = []
                for k, n in enumerate(g):
                    hdr.append((n, len(body)))
                    body += ser(packed[n]) + r.choice([b" ", b"\n"])
                    stm_entries[n] = (sid, k)
                htxt = b" ".join(b"%d %d" % h for h in hdr) + b"\n"
                sd = {"Type": Name("ObjStm"), "N": len(g), "First": len(htxt)}
                if mutate is not None:
                    mutate("objstm", sd)          # fault injection (C13): the writer's own dictionaries
                direct[sid] = Stream(sd, htxt + body)
                content_stm = (len(g), [x for h in hdr for x in h], [packed[n] for n in g])
                rev.setdefault("_stms", {})[sid] = content_stm
        for n in sorted(direct):
            offsets[n] = len(out)
            content[len(out)] = (n, direct[n])
            val = encrypt(n, direct[n]) if encrypt is not None else direct[n]     # object streams are encrypted as a whole
            out += b"%d 0 obj" % n + eol + ser(val) + eol + b"endobj" + eol
        maxid = max([maxid] + list(direct) + list(packed))
        trailer = {"Size": maxid + 2, "Root": Ref(rev["root"])}
        if rev.get("info") is not None:
            trailer["Info"] = Ref(rev["info"])
        if prev is not None:
            trailer["Prev"] = prev
        if trailer_extra:
            trailer.update(trailer_extra)
        if mutate is not None:
            mutate("trailer", trailer)

        def xref_stream(entries, extra):
            """entries: {objid: (type, f2, f3)} -> object text of an xref stream; returns (objid, bytes, sect)"""
            fresh[0] += 1
            xid = fresh[0]
            pos = len(out)
            entries = dict(entries)
            entries[xid] = (1, pos, 0)
            ids = sorted(entries)
            # partition into /Index ranges: runs of consecutive ids, randomly split further, gaps filled with type 0
            ranges = []
            cur = [ids[0]]
            for n in ids[1:]:
                if n == cur[-1] + 1 and r.random() < 0.8:
                    cur.append(n)
                elif n - cur[-1] <= 3 and r.random() < 0.3:
                    for m in range(cur[-1] + 1, n):
                        cur.append(m)
                        entries[m] = (0, 0, 65535)
                    cur.append(n)
                else:
                    ranges.append((cur[0], len(cur)))
                    cur = [n]
            ranges.append((cur[0], len(cur)))
            m2 = max(e[1] for e in entries.values())
            m3 = max(e[2] for e in entries.values())
            w1 = r.choice([1, 1, 2]) if any(e[0] != 1 for e in entries.values()) else r.choice([0, 1])
            w2 = max(1, (m2.bit_length() + 7) // 8) + r.choice([0, 0, 1])
            w3 = max((m3.bit_length() + 7) // 8, 0) + r.choice([0, 1])
            if w3 == 0 and m3 != 0:
                w3 = 1
            data = b""
            for start, cnt in ranges:
                for n in range(start, start + cnt):
                    t, a, b = entries[n]
                    data += _be(t, w1) + _be(a, w2) + _be(b, w3)
            d = {"Type": Name("XRef"), "W": [w1, w2, w3], "Size": max(maxid, xid) + 1}
            if not (len(ranges) == 1 and ranges[0][0] == 0 and ranges[0][1] == d["Size"] and r.random() < 0.5):
                d["Index"] = [x for rg in ranges for x in rg]
            d.update(extra)
            use_flate = r.random() < 0.4
            if mutate is not None:
                mutate("xrefstream", d)
            payload = __import__("zlib").compress(data) if use_flate else data
            if use_flate:
                d["Filter"] = Name("FlateDecode")
            content[pos] = (xid, Stream(d, payload))
            txt = b"%d 0 obj" % xid + eol + ser(Stream(d, payload)) + eol + b"endobj" + eol
            if "Index" not in d:
                ranges = [(0, d["Size"])]
                # entries beyond the data are read as empty slices; keep model and bytes consistent
            sect = ("stream", ranges, (w1, w2, w3), data,
                    {n: e for n, e in entries.items() if e[0] in (1, 2)})
            return xid, pos, txt, sect

        def table_text(offs):
            ids = sorted(offs)
            txt = b"xref" + eol
            subs = []
            cur = []
            for n in ids:
                if cur and n == cur[-1] + 1 and r.random() < 0.85:
                    cur.append(n)
                else:
                    if cur:
                        subs.append(cur)
                    cur = [n]
            if cur:
                subs.append(cur)
            if prev is None and (not subs or subs[0][0] != 0):
                subs.insert(0, [0])
            ent_eol = {b"\n": b" \n", b"\r": b" \r", b"\r\n": b"\r\n"}[eol]
            for sub in subs:
                txt += b"%d %d" % (sub[0], len(sub)) + eol
                for n in sub:
                    if n == 0 and n not in offs:
                        txt += b"0000000000 65535 f" + ent_eol
                    else:
                        txt += b"%010d %05d n" % (offs[n], 0) + ent_eol
            return txt

        secs = []
        if rev["form"] == "table":
            xpos = len(out)
            out += table_text(offsets) + b"trailer" + eol + ser(trailer) + eol
            secs.append(("table", {n: (p, 0) for n, p in offsets.items()}))
        elif rev["form"] == "stream":
            ents = {n: (1, p, 0) for n, p in offsets.items()}
            ents.update({n: (2, s, k) for n, (s, k) in stm_entries.items()})
            extra = {k: v for k, v in trailer.items() if k != "Size"}
            xid, xpos, txt, sect = xref_stream(ents, extra)
            out += txt
            secs.append(sect)
        else:  # hybrid: the compressed objects (and nothing else) go to the XRefStm
            ents = {n: (2, s, k) for n, (s, k) in stm_entries.items()}
            xid, spos, txt, sect = xref_stream(ents, {})
            out += txt
            xpos = len(out)
            tr = dict(trailer)
            tr["XRefStm"] = spos
            if mutate is not None:
                mutate("hybridtrailer", tr)
            offs = dict(offsets)
            out += table_text(offs) + b"trailer" + eol + ser(tr) + eol
            secs.append(("table", {n: (p, 0) for n, p in offs.items()}))
            secs.append(sect)
        out += b"startxref" + eol + b"%d" % xpos + eol + b"%%EOF" + eol
        prev = xpos
        sections_per_rev.append(secs)
    layout = [s for secs in reversed(sections_per_rev) for s in secs]
    return bytes(out), layout, content
