"""Minimal PDF writer used by the correspondence harnesses (trusted test infrastructure, DESIGN.md 2.4).
Values: None, bool, int, float, Name, bytes (string), list, dict (keys: str/bytes names), Ref, Stream, Raw."""
import zlib


class Name:
    def __init__(self, b):
        self.b = b.encode("latin-1") if isinstance(b, str) else bytes(b)

    def __eq__(self, o):
        return isinstance(o, Name) and o.b == self.b

    def __hash__(self):
        return hash(self.b)

    def __repr__(self):
        return "/" + self.b.decode("latin-1")


class Ref:
    def __init__(self, n, g=0):
        self.n, self.g = n, g

    def __repr__(self):
        return "%d %d R" % (self.n, self.g)


class Raw:
    """bytes written verbatim"""
    def __init__(self, b):
        self.b = b


class Stream:
    def __init__(self, d, data, set_length=True):
        self.d, self.data, self.set_length = dict(d), data, set_length


def ser_name(b):
    out = b"/"
    for c in b:
        if 0x21 <= c <= 0x7e and c not in b"#/%[]()<>{}":
            out += bytes([c])
        else:
            out += b"#%02x" % c
    return out


def ser_string(s):
    out = b"("
    for c in s:
        if c in b"()\\":
            out += b"\\" + bytes([c])
        elif c == 13:
            out += b"\\r"
        else:
            out += bytes([c])
    return out + b")"


def ser_num(x):
    if isinstance(x, bool):
        return b"true" if x else b"false"
    if isinstance(x, int):
        return b"%d" % x
    from fractions import Fraction
    if isinstance(x, Fraction):
        if x.denominator == 1:
            return b"%d" % x.numerator
        x = float(x)
    s = repr(float(x))
    if "e" in s or "E" in s or "inf" in s or "nan" in s:
        s = "%.10f" % x
    return s.encode()


def ser(v):
    if v is None:
        return b"null"
    if isinstance(v, Raw):
        return v.b
    if isinstance(v, (bool, int, float)) or type(v).__name__ == "Fraction":
        return ser_num(v)
    if isinstance(v, Name):
        return ser_name(v.b)
    if isinstance(v, (bytes, bytearray)):
        return ser_string(bytes(v))
    if isinstance(v, Ref):
        return b"%d %d R" % (v.n, v.g)
    if isinstance(v, (list, tuple)):
        return b"[" + b" ".join(ser(x) for x in v) + b"]"
    if isinstance(v, dict):
        parts = []
        for k, x in v.items():
            kb = k.b if isinstance(k, Name) else (k.encode("latin-1") if isinstance(k, str) else k)
            parts.append(ser_name(kb) + b" " + ser(x))
        return b"<< " + b" ".join(parts) + b" >>"
    if isinstance(v, Stream):
        d = dict(v.d)
        if v.set_length:
            d["Length"] = len(v.data)
        return ser(d) + b"\nstream\n" + v.data + b"\nendstream"
    raise TypeError("cannot serialise %r" % (v,))


def write_pdf(objects, root, info=None, extra_trailer=None, eol=b"\n", header=b"%PDF-1.4\n"):
    """objects: {objid: value} -> bytes with a classic cross-reference table"""
    out = bytearray(header)
    offsets = {}
    for n in sorted(objects):
        offsets[n] = len(out)
        out += b"%d 0 obj\n" % n + ser(objects[n]) + b"\nendobj\n"
    xref = len(out)
    size = max(objects) + 1 if objects else 1
    out += b"xref\n0 %d\n" % size
    for n in range(size):
        if n == 0 or n not in offsets:
            out += b"0000000000 65535 f \n"
        else:
            out += b"%010d 00000 n \n" % offsets[n]
    tr = {"Size": size, "Root": Ref(root)}
    if info is not None:
        tr["Info"] = Ref(info)
    if extra_trailer:
        tr.update(extra_trailer)
    out += b"trailer\n" + ser(tr) + b"\nstartxref\n%d\n%%%%EOF\n" % xref
    return bytes(out)


FONT_HELV = {"Type": Name("Font"), "Subtype": Name("Type1"), "BaseFont": Name("Helvetica")}


def simple_page_doc(contents_list, mediabox=(0, 0, 612, 792), fonts=None, page_extra=None):
    """one document, one page per entry of contents_list (bytes); returns (bytes, objects)"""
    objs = {1: {"Type": Name("Catalog"), "Pages": Ref(2)}}
    fonts = fonts or {"F1": FONT_HELV}
    fid = 3
    fontrefs = {}
    for k, f in fonts.items():
        objs[fid] = f
        fontrefs[k] = Ref(fid)
        fid += 1
    kids = []
    nid = fid
    for c in contents_list:
        objs[nid] = Stream({}, c)
        page = {"Type": Name("Page"), "Parent": Ref(2), "MediaBox": list(mediabox), "Contents": Ref(nid),
                "Resources": {"Font": dict(fontrefs)}}
        if page_extra:
            page.update(page_extra)
        objs[nid + 1] = page
        kids.append(Ref(nid + 1))
        nid += 2
    objs[2] = {"Type": Name("Pages"), "Kids": kids, "Count": len(kids)}
    return write_pdf(objs, 1), objs
