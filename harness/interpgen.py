"""Content-stream program generator shared by C05 (text model) and C16 (painted paths): builds operator programs,
resources (fonts with /Widths, form XObjects), the PDF bytes, the Gallina term for Model/Interp.v, runs the
implementation and compares its events with the model's within a float tolerance."""
import io
from fractions import Fraction as Fr

import common
from common import gz, glist, gq, gbytes
from pdfwriter import Name, Ref, Stream, Raw, write_pdf, ser_num, ser_string, ser_name

# operator text -> (Coq constructor, nargs)
OPS = {
    "q": ("Kq", 0), "Q": ("KQ", 0), "cm": ("Kcm", 6), "w": ("Kw", 1), "d": ("Kd", 2), "J": ("KJ", 1), "j": ("Kj", 1),
    "M": ("KM", 1), "ri": ("Kri", 1), "i": ("Ki", 1), "gs": ("Kgs", 1),
    "m": ("Km", 2), "l": ("Kl", 2), "c": ("Kc", 6), "v": ("Kv", 4), "y": ("Ky", 4), "h": ("Kh", 0), "re": ("Kre", 4),
    "S": ("KS", 0), "s": ("Ks", 0), "f": ("Kf", 0), "F": ("KF", 0), "f*": ("Kfstar", 0), "B": ("KB", 0), "B*": ("KBstar", 0),
    "b": ("Kb", 0), "b*": ("Kbstar", 0), "n": ("Kn", 0), "W": ("KW", 0), "W*": ("KWstar", 0),
    "CS": ("KCS", 1), "cs": ("Kcs", 1), "G": ("KG", 1), "g": ("Kg", 1), "RG": ("KRG", 3), "rg": ("Krg", 3),
    "K": ("KK", 4), "k": ("Kk", 4), "SCN": ("KSCN", 0), "scn": ("Kscn", 0), "SC": ("KSC", 0), "sc": ("Ksc", 0), "sh": ("Ksh", 1),
    "BT": ("KBT", 0), "ET": ("KET", 0), "Tc": ("KTc", 1), "Tw": ("KTw", 1), "Tz": ("KTz", 1), "TL": ("KTL", 1),
    "Tf": ("KTf", 2), "Tr": ("KTr", 1), "Ts": ("KTs", 1), "Td": ("KTd", 2), "TD": ("KTD", 2), "Tm": ("KTm", 6),
    "T*": ("KTstar", 0), "TJ": ("KTJ", 1), "Tj": ("KTj", 1), "'": ("Kquote", 1), '"': ("Kdquote", 3), "Do": ("KDo", 1),
    "xyz": ("Kunknown", 0),
}
CSNAMES = {"DeviceGray": 1, "DeviceRGB": 2, "DeviceCMYK": 3}


class Nm:
    def __init__(self, s):
        self.s = s


def num(r, small=False):
    k = r.random()
    if k < 0.3:
        return r.choice([0, 1, 2, 5, 10, 12, 100, -1, -3])
    if small:
        return Fr(r.randint(-40, 40), r.choice([1, 2, 4, 8]))
    return Fr(r.randint(-4096, 4096), r.choice([1, 2, 4, 8, 16]))


def ser_operand(v):
    if isinstance(v, Nm):
        return ser_name(v.s.encode())
    if isinstance(v, (int, Fr)):
        return ser_num(v)
    if isinstance(v, bytes):
        return ser_string(v)
    if isinstance(v, list):
        return b"[" + b" ".join(ser_operand(x) for x in v) + b"]"
    if v is True or v is False:
        return b"true" if v else b"false"
    raise TypeError(v)


class Names:
    """stable small integers for names"""
    def __init__(self):
        self.ids = dict(CSNAMES)

    def get(self, s):
        return self.ids.setdefault(s, len(self.ids) + 10)


def g_operand(v, names):
    if isinstance(v, Nm):
        return "(OName %s)" % gz(names.get(v.s))
    if v is True or v is False:
        return "(OBool %s)" % ("true" if v else "false")
    if isinstance(v, (int, Fr)):
        return "(ONum %s)" % gq(v)
    if isinstance(v, bytes):
        return "(OStr %s)" % gbytes(v)
    if isinstance(v, list):
        return "(OArr %s)" % glist([g_operand(x, names) for x in v])
    raise TypeError(v)


def g_prog(prog, names):
    out = []
    for it in prog:
        if it[0] == "op":
            out.append("IOp %s" % OPS[it[1]][0])
        else:
            out.append("IOpnd %s" % g_operand(it[1], names))
    return glist(out)


def ser_prog(prog, r=None):
    parts = []
    for it in prog:
        parts.append(it[1].encode() if it[0] == "op" else ser_operand(it[1]))
    return b" ".join(parts)


# ------------------------------------------------------------------ resources
class Font:
    def __init__(self, r, fid):
        self.fid = fid
        self.first = r.choice([0, 32, 65])
        n = r.randint(1, 60)
        self.widths = [r.choice([250, 500, 600, 750, 1000, 0, 125]) for _ in range(n)]
        self.missing = r.choice([0, 500, 250])
        self.descent = r.choice([0, -200, -250, -125])

    def spec(self):
        return {"Type": Name("Font"), "Subtype": Name("Type1"), "BaseFont": Name("VerifFont%d" % self.fid),
                "FirstChar": self.first, "LastChar": self.first + len(self.widths) - 1, "Widths": list(self.widths),
                "FontDescriptor": {"Type": Name("FontDescriptor"), "FontName": Name("VerifFont%d" % self.fid),
                                   "MissingWidth": self.missing, "Descent": self.descent, "Flags": 32}}

    def gallina(self):
        ws = glist(["(%s, %s)" % (gz(self.first + i), gq(Fr(w, 1000))) for i, w in enumerate(self.widths)])
        return "(font_of %s %s %s %s)" % (gz(self.fid), ws, gq(Fr(self.missing, 1000)), gq(Fr(self.descent, 1000)))


class Resources:
    def __init__(self):
        self.fonts = {}      # name -> Font
        self.forms = {}      # name -> (matrix, Resources or None, prog)


def g_resources(res, names):
    fonts = glist(["(%s, %s)" % (gz(names.get(n)), f.gallina()) for n, f in res.fonts.items()])
    xs = []
    for n, (m, own, prog) in res.forms.items():
        own_g = "None" if own is None else "(Some %s)" % g_resources(own, names)
        xs.append("(%s, XForm (%s) %s %s)" % (gz(names.get(n)), ", ".join(gq(x) for x in m), own_g, g_prog(prog, names)))
    return "(Res %s [] %s)" % (fonts, glist(xs))


def pdf_resources(res, objs, nxt):
    d = {}
    if res.fonts:
        fd = {}
        for n, f in res.fonts.items():
            nxt[0] += 1
            objs[nxt[0]] = f.spec()
            fd[n] = Ref(nxt[0])
        d["Font"] = fd
    if res.forms:
        xd = {}
        for n, (m, own, prog) in res.forms.items():
            sd = {"Type": Name("XObject"), "Subtype": Name("Form"), "BBox": [0, 0, 1000, 1000], "Matrix": list(m)}
            if own is not None:
                sd["Resources"] = pdf_resources(own, objs, nxt)
            nxt[0] += 1
            objs[nxt[0]] = Stream(sd, ser_prog(prog))
            xd[n] = Ref(nxt[0])
        d["XObject"] = xd
    return d


def build_pdf(res, prog, r, split=True, mediabox=(0, 0, 612, 792)):
    objs = {1: {"Type": Name("Catalog"), "Pages": Ref(2)}}
    nxt = [10]
    rd = pdf_resources(res, objs, nxt)
    body = ser_prog(prog)
    # split the content into 1-4 streams at white space between items
    pieces = [body]
    if split and r is not None and r.random() < 0.5:
        toks = [it[1].encode() if it[0] == "op" else ser_operand(it[1]) for it in prog]
        k = r.randint(1, 3)
        cuts = sorted(set(r.randint(0, len(toks)) for _ in range(k)))
        pieces, a = [], 0
        for c in cuts + [len(toks)]:
            pieces.append(b" ".join(toks[a:c]) + r.choice([b" ", b"\n", b"\r\n"]))
            a = c
    crefs = []
    for p in pieces:
        nxt[0] += 1
        objs[nxt[0]] = Stream({}, p)
        crefs.append(Ref(nxt[0]))
    objs[3] = {"Type": Name("Page"), "Parent": Ref(2), "MediaBox": list(mediabox), "Resources": rd,
               "Contents": crefs if len(crefs) > 1 or (r is not None and r.random() < 0.3) else crefs[0]}
    objs[2] = {"Type": Name("Pages"), "Kids": [Ref(3)], "Count": 1}
    return write_pdf(objs, 1), len(pieces)


# ------------------------------------------------------------------ running the implementation
def impl_events(pdf, names):
    """flat list of events in order: glyph / shape / figure brackets, as nested Python lists of numbers"""
    from pdfminer.converter import PDFPageAggregator
    from pdfminer.pdfinterp import PDFPageInterpreter, PDFResourceManager
    from pdfminer.pdfpage import PDFPage
    from pdfminer.layout import LTChar, LTCurve, LTLine, LTRect, LTFigure
    from pdfminer.psparser import PSLiteral
    rm = PDFResourceManager()
    dev = PDFPageAggregator(rm, laparams=None)
    it = PDFPageInterpreter(rm, dev)
    out = []

    def col(c):
        if c is None:
            return []
        if isinstance(c, (int, float)):
            return [c]
        return list(c)

    def opnd(v):
        if isinstance(v, bool):
            return [5, int(v)]
        if v is None:
            return [4, 0]
        if isinstance(v, (int, float)):
            return [0, v]
        if isinstance(v, PSLiteral):
            n = v.name if isinstance(v.name, str) else v.name.decode("latin-1")
            return [1, names.get(n)]
        if isinstance(v, bytes):
            return [2, v]
        if isinstance(v, list):
            return [3, [opnd(x) for x in v]]
        return [4, 0]

    def walk(container):
        for o in container:
            if isinstance(o, LTChar):
                txt = o.get_text()
                cid = ord(txt) if len(txt) == 1 else int(txt[5:-1])
                fid = int(o.fontname.replace("VerifFont", "")) if "VerifFont" in o.fontname else -1
                out.append([0, cid, list(o.matrix), o.adv, fid, col(o.graphicstate.ncolor), list(o.bbox)])
            elif isinstance(o, LTFigure):
                out.append([2, names.get(o.name), list(o.matrix)])
                walk(o)
                out.append([3, names.get(o.name)])
            elif isinstance(o, LTCurve):
                kind = 0 if isinstance(o, LTLine) else 1 if isinstance(o, LTRect) else 2
                dash = [] if o.dashing_style is None else [opnd(o.dashing_style[0]), opnd(o.dashing_style[1])]
                orig = [[ord(p[0]), [list(pt) for pt in p[1:]]] for p in (o.original_path or [])]
                out.append([1, kind, [list(p) for p in o.pts], int(bool(o.stroke)), int(bool(o.fill)), int(bool(o.evenodd)),
                            o.linewidth, dash, col(o.stroking_color), col(o.non_stroking_color), orig])
    for page in PDFPage.get_pages(io.BytesIO(pdf)):
        it.process_page(page)
        walk(dev.get_result())
    return out


def model_events(cases):
    """cases: list of Gallina inputs for run_content -> parsed values with [num, den] pairs"""
    return common.coq_eval("interp", ["Model.Interp", "Model.PathPaint", "Model.InterpRun"], "run_content", cases, shard=60)


def is_q(v):
    return isinstance(v, list) and len(v) == 2 and all(isinstance(x, int) for x in v) and v[1] > 0


def same(model, impl, tol=1e-7):
    """structural comparison: model rationals [n, d] against implementation numbers"""
    if is_q(model) and isinstance(impl, (int, float)) and not isinstance(impl, bool):
        m = model[0] / model[1]
        return abs(m - impl) <= tol * max(1.0, abs(m), abs(impl))
    if isinstance(model, list) and isinstance(impl, list):
        return len(model) == len(impl) and all(same(a, b, tol) for a, b in zip(model, impl))
    if isinstance(model, bytes) or isinstance(impl, bytes):
        return model == impl
    if isinstance(model, int) and isinstance(impl, (int, float)):
        return model == impl
    return False


def render_q(v):
    """model value with rationals rendered as floats (for reports)"""
    if is_q(v):
        return v[0] / v[1]
    if isinstance(v, list):
        return [render_q(x) for x in v]
    if isinstance(v, bytes):
        return v.hex()
    return v
