"""Reference ENCRYPTOR for the standard security handler, written from ISO 32000-1 7.6 (Algorithms 1-7) and
ISO 32000-2 7.6.4 (Algorithms 2.A, 2.B, 8-10) -- the writer side, which pdfminer does not contain.  Primitives come
from hashlib and the `cryptography` package; RC4 is implemented here.  Every hash call can be recorded (for the
oracle tables the Coq model evaluates against)."""
import hashlib
import struct

PAD = bytes([0x28, 0xBF, 0x4E, 0x5E, 0x4E, 0x75, 0x8A, 0x41, 0x64, 0x00, 0x4E, 0x56, 0xFF, 0xFA, 0x01, 0x08,
             0x2E, 0x2E, 0x00, 0xB6, 0xD0, 0x68, 0x3E, 0x80, 0x2F, 0x0C, 0xA9, 0xFE, 0x64, 0x53, 0x69, 0x7A])


def rc4(key, data):
    s = list(range(256))
    j = 0
    for i in range(256):
        j = (j + s[i] + key[i % len(key)]) & 255
        s[i], s[j] = s[j], s[i]
    i = j = 0
    out = bytearray()
    for b in data:
        i = (i + 1) & 255
        j = (j + s[i]) & 255
        s[i], s[j] = s[j], s[i]
        out.append(b ^ s[(s[i] + s[j]) & 255])
    return bytes(out)


class Recorder:
    def __init__(self):
        self.md5 = {}

    def md5f(self, data):
        d = hashlib.md5(data).digest()
        self.md5[bytes(data)] = d
        return d


def aes_cbc_encrypt(key, iv, data, pad=True):
    from cryptography.hazmat.primitives.ciphers import Cipher, algorithms, modes
    if pad:
        n = 16 - len(data) % 16
        data = data + bytes([n]) * n
    enc = Cipher(algorithms.AES(key), modes.CBC(iv)).encryptor()
    return enc.update(data) + enc.finalize()


def aes_ecb_encrypt(key, data):
    from cryptography.hazmat.primitives.ciphers import Cipher, algorithms, modes
    enc = Cipher(algorithms.AES(key), modes.ECB()).encryptor()
    return enc.update(data) + enc.finalize()


def hash_2b(password, salt, udata=b""):
    """ISO 32000-2 Algorithm 2.B"""
    k = hashlib.sha256(password + salt + udata).digest()
    i = 0
    while True:
        k1 = (password + k + udata) * 64
        e = aes_cbc_encrypt(k[:16], k[16:32], k1, pad=False)
        m = int.from_bytes(e[:16], "big") % 3
        k = [hashlib.sha256, hashlib.sha384, hashlib.sha512][m](e).digest()
        i += 1
        if i >= 64 and e[-1] <= i - 32:
            break
    return k[:32]


class Enc:
    """one encryption set-up.  v/r: (1,2) (2,3) (4,4) (5,5) (5,6); cfm: 'V2' | 'AESV2' | 'AESV3' | None"""

    def __init__(self, v, r, length, user, owner, p, docid, encrypt_metadata=True, cfm=None, rnd=None, rec=None,
                 stmf="StdCF", strf="StdCF"):
        self.v, self.r, self.length, self.p, self.docid, self.em, self.cfm = v, r, length, p, docid, encrypt_metadata, cfm
        self.rec = rec or Recorder()
        self.rnd = rnd
        self.stmf, self.strf = stmf, strf
        md5 = self.rec.md5f
        if r <= 4:
            n = 5 if r == 2 else length // 8
            self.n = n
            upw = (user + PAD)[:32]
            opw = ((owner if owner else user) + PAD)[:32]
            # Algorithm 3: O
            h = md5(opw)
            if r >= 3:
                for _ in range(50):
                    h = md5(h)
            okey = h[:n]
            o = rc4(okey, upw)
            if r >= 3:
                for i in range(1, 20):
                    o = rc4(bytes(c ^ i for c in okey), o)
            self.o = o
            # Algorithm 2: key
            h = md5(upw + o + struct.pack("<I", p & 0xFFFFFFFF) + docid + (b"\xff\xff\xff\xff" if r >= 4 and not encrypt_metadata else b""))
            if r >= 3:
                for _ in range(50):
                    h = md5(h[:n])
            self.key = h[:n]
            # Algorithms 4 / 5: U
            if r == 2:
                self.u = rc4(self.key, PAD)
            else:
                h = md5(PAD + docid)
                u = rc4(self.key, h)
                for i in range(1, 20):
                    u = rc4(bytes(c ^ i for c in self.key), u)
                self.u = u + bytes(rnd.randrange(256) for _ in range(16))
        else:
            self.key = bytes(rnd.randrange(256) for _ in range(32))
            hf = (lambda pw, salt, ud=b"": hashlib.sha256(pw + salt + ud).digest()) if r == 5 else hash_2b
            upw, opw = user[:127], (owner if owner else user)[:127]
            uvs, uks, ovs, oks = (bytes(rnd.randrange(256) for _ in range(8)) for _ in range(4))
            self.u = hf(upw, uvs) + uvs + uks
            self.ue = aes_cbc_encrypt(hf(upw, uks), b"\0" * 16, self.key, pad=False)
            self.o = hf(opw, ovs, self.u) + ovs + oks
            self.oe = aes_cbc_encrypt(hf(opw, oks, self.u), b"\0" * 16, self.key, pad=False)
            perms = struct.pack("<I", p & 0xFFFFFFFF) + b"\xff\xff\xff\xff" + (b"T" if encrypt_metadata else b"F") + b"adb" + bytes(4)
            self.perms = aes_ecb_encrypt(self.key, perms)

    def objkey(self, objid, genno, aes):
        k = self.key + struct.pack("<I", objid)[:3] + struct.pack("<I", genno)[:2] + (b"sAlT" if aes else b"")
        return self.rec.md5f(k)[:min(len(self.key) + 5, 16)]

    def method(self, is_stream):
        if self.v < 4:
            return "V2"
        name = self.stmf if is_stream else self.strf
        return "Identity" if name == "Identity" else self.cfm

    def encrypt(self, objid, genno, data, is_stream=False):
        m = self.method(is_stream)
        if m == "Identity":
            return data
        if m == "V2":
            return rc4(self.objkey(objid, genno, False), data)
        iv = bytes(self.rnd.randrange(256) for _ in range(16))
        if m == "AESV2":
            return iv + aes_cbc_encrypt(self.objkey(objid, genno, True), iv, data)
        return iv + aes_cbc_encrypt(self.key, iv, data)

    def encrypt_dict(self):
        from pdfwriter import Name
        d = {"Filter": Name("Standard"), "V": self.v, "R": self.r, "O": self.o, "U": self.u,
             "P": self.p if self.p < 2 ** 31 else self.p - 2 ** 32}
        if self.v in (2, 4, 5) or self.length != 40:
            d["Length"] = self.length
        if self.v >= 4:
            d["CF"] = {"StdCF": {"Type": Name("CryptFilter"), "CFM": Name(self.cfm), "AuthEvent": Name("DocOpen"),
                                 "Length": 16 if self.cfm != "AESV3" else 32}}
            d["StmF"] = Name(self.stmf)
            d["StrF"] = Name(self.strf)
            if not self.em:
                d["EncryptMetadata"] = False
        if self.v == 5:
            d["OE"], d["UE"], d["Perms"] = self.oe, self.ue, self.perms
        return d


def encrypt_value(enc, objid, genno, v):
    """strings inside a (non-stream or stream-dictionary) value"""
    from pdfwriter import Stream
    if isinstance(v, (bytes, bytearray)):
        return enc.encrypt(objid, genno, bytes(v)) if len(v) else bytes(v)
    if isinstance(v, list):
        return [encrypt_value(enc, objid, genno, x) for x in v]
    if isinstance(v, dict):
        return {k: encrypt_value(enc, objid, genno, x) for k, x in v.items()}
    if isinstance(v, Stream):
        d = encrypt_value(enc, objid, genno, v.d)
        t = v.d.get("Type")
        if not enc.em and t is not None and getattr(t, "b", None) == b"Metadata":
            return Stream(d, v.data)
        if getattr(t, "b", None) == b"XRef":
            return Stream(v.d, v.data)
        return Stream(d, enc.encrypt(objid, genno, v.data, True))
    return v
