#!/usr/bin/env python3
"""C11 -- converters: text output is the tree's text; XML is well-formed and faithful (DESIGN.md section 4, C11)."""
import io
import os
import sys
import xml.dom.minidom
from fractions import Fraction

sys.path.insert(0, os.path.dirname(os.path.abspath(__file__)))
import common
from common import CZ, CLs, glist, gbool
from pdfwriter import Name, Ref, Stream, write_pdf
import layoutgen as lg

PROP = "C11"
GEN = []
PROPS_FILE = "theories/Props/C11.v"
COQ_TARGETS = ["theories/Props/C11.vo", "theories/Model/ConvertRun.vo"]
DRIVER = None
LEVEL = "proof"
RULE = ("generated documents with text containing XML-special characters, quotes, non-ASCII and (through ToUnicode) control "
        "characters and astral code points; FontDescriptor font names and form XObject names with & < > \" '; nested "
        "figures, lines, rectangles, curves, images; 1-2 pages; LAParams incl. boxes_flow None, all_texts, "
        "detect_vertical; extract_text_to_fp with output_type text and xml, strip_control on/off, sinks StringIO and "
        "BytesIO with utf-8 / utf-16 / latin-1 (when representable); compared with (a) Model/Convert.v rendering the tree "
        "obtained from extract_pages on the same bytes (exact string equality), (b) an oracle that parses the XML with "
        "expat/minidom and walks it against the tree, and concatenates the tree's text for the text output. "
        "Non-trivial: special characters or a figure present.")
TRUSTED = [
    "modelled by hand: utils.enc, TextConverter.receive_layout/write_text, XMLConverter.receive_layout/write_text/"
    "write_header/close (Model/Convert.v); the layout tree is taken from extract_pages (layout itself is C08/C09)",
    "Python's '%.3f' / '%d' formatting and codecs are used by both sides and not modelled; expat is the reference XML reader",
]
ASSUMPTIONS = ["XML 1.0 cannot carry C0 control characters: well-formedness is demanded when strip_control is on or the text has none"]
MANIFEST_ENTRY = {
    "category": "proof",
    "technique": "Coq proofs (escape: no markup character survives and unescape . escape = id for every string, by "
                 "induction; element structure of the XML of every tree is well nested, by nested induction over items and "
                 "groups with a stack machine; text output distributes over the tree) + exact differential runs against the "
                 "model and an expat-based structural oracle",
    "text": "Theorems: text_output is the in-order concatenation with one line break per box and one form feed per page; "
            "escape leaves no < > \" ' and only entity ampersands, and decoding the five entities returns the original "
            "string; strip_control removes exactly the C0 controls XML forbids; for every document the token stream "
            "pages/page/figure*/textbox/textline/text/layout/textgroup is well nested with nothing left open; glyph text and "
            "font/figure names round-trip through the output.",
    "note": "Trusted: Coq kernel, hand model tied by exact differential runs, expat as reference reader.",
    "design_ref": "DESIGN.md section 4, C11",
}

SPECIAL = ["<", ">", "&", '"', "'", "a", "b", " ", "\xe9", "]]>", "&amp;", "<x>"]


def f3(v):
    return "%.3f" % v


def bbox_s(b):
    return "%.3f,%.3f,%.3f,%.3f" % tuple(b)


# ------------------------------------------------------------------ documents
def tounicode(mapping):
    lines = [b"/CIDInit /ProcSet findresource begin 12 dict begin begincmap /CMapType 2 def",
             b"1 begincodespacerange <00> <FF> endcodespacerange", b"%d beginbfchar" % len(mapping)]
    for c, t in mapping.items():
        lines.append(b"<%02X> <%s>" % (c, t.encode("utf-16-be").hex().upper().encode()))
    lines += [b"endbfchar", b"endcmap end end"]
    return b"\n".join(lines)


def pdf_str(s):
    out = b"("
    for c in s.encode("latin-1"):
        if c in b"()\\":
            out += b"\\" + bytes([c])
        elif c < 32 or c > 126:
            out += b"\\%03o" % c
        else:
            out += bytes([c])
    return out + b")"


def gen_doc(r):
    tu = {0x01: "\x01", 0x02: "\x0b", 0x03: "\x1f", 0x04: "中", 0x05: "\U0001f600", 0x06: "\t", 0x07: "\x7f", 0x08: "\x85", 0x10: "ffi",
          # glyphs whose text is several characters with a control character first, last or in the middle
          0x11: "C\x02", 0x12: "<\x1f&", 0x13: "f\x0cl", 0x14: "\x01B"}
    use_ctrl = r.random() < 0.3
    fontname = r.choice(["Helv", 'A&B', 'Q<"x', "it's", "n>1", "É"])
    formname = r.choice(["Fm1", 'F&m', 'F"<1', "F'1", "x>y"])
    objs = {1: {"Type": Name("Catalog"), "Pages": Ref(2)},
            7: {"Type": Name("Font"), "Subtype": Name("Type1"), "BaseFont": Name("Foo"), "Encoding": Name("WinAnsiEncoding"),
                "FirstChar": 0, "Widths": [500] * 256, "FontDescriptor": Ref(8), "ToUnicode": Ref(9)},
            8: {"Type": Name("FontDescriptor"), "FontName": Name(fontname.encode("utf-8")), "Flags": 32, "FontBBox": [0, -200, 1000, 800],
                "Ascent": 800, "Descent": -200},
            9: Stream({}, tounicode(tu))}
    kids = []
    npages = r.choice([1, 1, 2])
    special = False
    for pg in range(npages):
        parts = []
        for _ in range(r.randint(1, 5)):
            k = r.random()
            if k < 0.55:
                words = "".join(r.choice(SPECIAL) for _ in range(r.randint(1, 6)))
                special = True
                s = pdf_str(words)
                if use_ctrl and r.random() < 0.6:
                    s = b"<" + bytes(r.choice([1, 2, 3, 4, 5, 6, 7, 8, 0x10, 0x11, 0x12, 0x13, 0x14, 0x41]) for _ in range(r.randint(1, 4))).hex().encode() + b">"
                parts.append(b"BT /F1 %d Tf %d %d Td %s Tj ET" % (r.choice([8, 10, 12]), r.randint(20, 500), r.randint(50, 750), s))
            elif k < 0.7:
                op = r.choice([b"%d %d m %d %d l S", b"%d %d %d %d re f", b"%d %d m %d %d l 300 300 l S"])
                parts.append(r.choice([b"", b"2.5 w ", b"0 w "]) + op % (r.randint(0, 500), r.randint(0, 700), r.randint(1, 400), r.randint(1, 400)))
            elif k < 0.9:
                parts.append(b"q 1 0 0 1 %d %d cm " % (r.randint(0, 300), r.randint(0, 300)) + b"/" + b"".join(b"#%02X" % c for c in formname.encode()) + b" Do Q")
                special = True
            else:
                parts.append(b"q 30 0 0 20 %d %d cm BI /W 2 /H 2 /CS /G /BPC 8 ID abcd EI Q" % (r.randint(0, 400), r.randint(0, 600)))
        cid = 20 + pg * 2
        objs[cid] = Stream({}, b"\n".join(parts))
        objs[cid + 1] = {"Type": Name("Page"), "Parent": Ref(2), "MediaBox": [0, 0, 612, 792], "Contents": Ref(cid),
                         "Resources": {"Font": {"F1": Ref(7)}, "XObject": {Name(formname.encode()): Ref(6)}}}
        if r.random() < 0.2:
            objs[cid + 1]["Rotate"] = r.choice([90, 180])
        kids.append(Ref(cid + 1))
    inner = b"BT /F1 9 Tf 5 5 Td " + pdf_str("in<&>") + b" Tj ET 0 0 10 10 re f"
    if r.random() < 0.4:
        inner += b" q 1 0 0 1 20 20 cm /In Do Q"
    objs[6] = Stream({"Type": Name("XObject"), "Subtype": Name("Form"), "BBox": [0, 0, 100, 100],
                      "Resources": {"Font": {"F1": Ref(7)}, "XObject": {"In": Ref(5)}}}, inner)
    objs[5] = Stream({"Type": Name("XObject"), "Subtype": Name("Form"), "BBox": [0, 0, 50, 50], "Resources": {"Font": {"F1": Ref(7)}}},
                     b"BT /F1 7 Tf 1 1 Td (deep) Tj ET")
    objs[2] = {"Type": Name("Pages"), "Kids": kids, "Count": len(kids)}
    return write_pdf(objs, 1), special or use_ctrl, use_ctrl


# ------------------------------------------------------------------ the tree -> model / oracle structures
def gs_(s):
    return "[" + "; ".join(str(ord(c)) for c in s) + "]"


def conv_tree(pages):
    """returns (gallina list of pages, python tree for the oracle)"""
    from pdfminer.layout import (LTTextBox, LTTextBoxVertical, LTTextLine, LTChar, LTAnno, LTFigure, LTLine, LTRect, LTCurve, LTImage,
                                 LTTextGroup)

    def chr_(c):
        g = "(mkChr %s %s %s %s %s %s)" % (gs_(c.fontname), gs_(bbox_s(c.bbox)), gs_(c.ncs.name), gs_(str(c.graphicstate.ncolor)),
                                         gs_(f3(c.size)), gs_(c.get_text()))
        return g, ("text", {"font": c.fontname, "bbox": bbox_s(c.bbox), "size": f3(c.size)}, c.get_text())

    def line_(l):
        ge, pe = [], []
        for e in l:
            if isinstance(e, LTChar):
                g, p = chr_(e)
                ge.append("LChar " + g)
                pe.append(p)
            else:
                ge.append("LAnno %s" % gs_(e.get_text()))
                pe.append(("text", {}, e.get_text()))
        return "(mkTLine %s %s)" % (gs_(bbox_s(l.bbox)), glist(ge)), ("textline", {"bbox": bbox_s(l.bbox)}, pe)

    def item_(o):
        if isinstance(o, LTTextBox):
            ls = [line_(l) for l in o]
            v = isinstance(o, LTTextBoxVertical)
            attrs = {"id": "%d" % o.index, "bbox": bbox_s(o.bbox)}
            if v:
                attrs["wmode"] = "vertical"
            return ("IBox (mkTBox %s %s %s %s)" % (gs_("%d" % o.index), gs_(bbox_s(o.bbox)), gbool(v), glist([a for a, _ in ls])),
                    ("textbox", attrs, [b for _, b in ls]))
        if isinstance(o, LTTextLine):
            g, p = line_(o)
            return "ILine " + g, p
        if isinstance(o, LTChar):
            g, p = chr_(o)
            return "IChar " + g, p
        if isinstance(o, LTFigure):
            ks = [item_(k) for k in o]
            return ("IFigure %s %s %s" % (gs_(o.name), gs_(bbox_s(o.bbox)), glist(["(%s)" % a for a, _ in ks])),
                    ("figure", {"name": o.name, "bbox": bbox_s(o.bbox)}, [b for _, b in ks]))
        if isinstance(o, (LTLine, LTRect, LTCurve)):
            k = 0 if isinstance(o, LTLine) else 1 if isinstance(o, LTRect) else 2
            attrs = {"linewidth": "%d" % o.linewidth, "bbox": bbox_s(o.bbox)}
            if k == 2:
                attrs["pts"] = o.get_pts()
            return ("IShape %d %s %s %s" % (k, gs_("%d" % o.linewidth), gs_(bbox_s(o.bbox)), gs_(o.get_pts() if k == 2 else "")),
                    (["line", "rect", "curve"][k], attrs, []))
        if isinstance(o, LTImage):
            return ("IImage %s %s" % (gs_("%d" % o.width), gs_("%d" % o.height)), ("image", {"width": "%d" % o.width, "height": "%d" % o.height}, []))
        raise TypeError(type(o))

    def group_(g):
        if isinstance(g, LTTextBox):
            return "GBox %s %s" % (gs_("%d" % g.index), gs_(bbox_s(g.bbox))), ("textbox", {"id": "%d" % g.index, "bbox": bbox_s(g.bbox)}, [])
        ks = [group_(k) for k in g]
        return "GGroup %s %s" % (gs_(bbox_s(g.bbox)), glist(["(%s)" % a for a, _ in ks])), ("textgroup", {"bbox": bbox_s(g.bbox)}, [b for _, b in ks])
    gp, pp = [], []
    for page in pages:
        its = [item_(o) for o in page]
        if page.groups is not None:
            gr = [group_(g) for g in page.groups]
            gg = "(Some %s)" % glist(["(%s)" % a for a, _ in gr])
            layout = [("layout", {}, [b for _, b in gr])]
        else:
            gg, layout = "None", []
        gp.append("(mkPage %s %s %s %s %s)" % (gs_(str(page.pageid)), gs_(bbox_s(page.bbox)), gs_("%d" % page.rotate),
                                              glist(["(%s)" % a for a, _ in its]), gg))
        pp.append(("page", {"id": str(page.pageid), "bbox": bbox_s(page.bbox), "rotate": "%d" % page.rotate}, [b for _, b in its] + layout))
    return glist(gp), pp


def tree_text(pages):
    from pdfminer.layout import LTTextBox, LTContainer, LTText
    out = []

    def render(item):
        if isinstance(item, LTContainer):
            for ch in item:
                render(ch)
        elif isinstance(item, LTText):
            out.append(item.get_text())
        if isinstance(item, LTTextBox):
            out.append("\n")
    for p in pages:
        render(p)
        out.append("\f")
    return "".join(out)


CONTROL = set(range(0, 9)) | {11, 12} | set(range(14, 32))


def dom_matches(node, want, strip):
    """compare a DOM element with the expected (name, attrs, children|text); returns None or a description"""
    name, attrs, kids = want
    if node.nodeName != name:
        return "element %s where %s expected" % (node.nodeName, name)
    for k, v in attrs.items():
        if node.getAttribute(k) != v:
            return "attribute %s of %s: %r vs %r" % (k, name, node.getAttribute(k), v)
    if isinstance(kids, str):
        data = "".join(ch.data for ch in node.childNodes if ch.nodeType == ch.TEXT_NODE)
        exp = "".join(c for c in kids if not (strip and ord(c) in CONTROL))
        # XML line-end normalisation: \r\n and \r read as \n
        if data != exp.replace("\r\n", "\n").replace("\r", "\n"):
            return "character data %r vs %r" % (data, exp)
        return None
    els = [ch for ch in node.childNodes if ch.nodeType == ch.ELEMENT_NODE]
    if len(els) != len(kids):
        return "%d children of %s where %d expected" % (len(els), name, len(kids))
    for e, k in zip(els, kids):
        m = dom_matches(e, k, strip)
        if m:
            return m
    return None


def run(pdf, otype, la, sink, codec, strip):
    from pdfminer.high_level import extract_text_to_fp
    out = io.BytesIO() if sink == "bytes" else io.StringIO()
    kw = {}
    if sink == "str" and otype == "xml":
        codec = ""
    extract_text_to_fp(io.BytesIO(pdf), out, output_type=otype, laparams=la, codec=codec, strip_control=strip, **kw)
    v = out.getvalue()
    return v


def cases(ctx, n):
    from pdfminer.high_level import extract_pages
    tcases, xcases, metas_t, metas_x = [], [], [], []
    for i in range(n):
        r = ctx.sub("doc", i)
        pdf, special, has_ctrl = gen_doc(r)
        p = lg.gen_params(r)
        la = lg.la(p)
        la.all_texts = r.random() < 0.4
        strip = r.random() < 0.5
        fam = "doc-ctrl" if has_ctrl else "doc"
        inp = {"pdf": pdf.hex(), "params": {k: (None if v is None else str(v)) for k, v in p.items()}, "all_texts": la.all_texts, "strip": strip}
        try:
            pages = list(extract_pages(io.BytesIO(pdf), laparams=la))
            gpages, ppages = conv_tree(pages)
            want_text = tree_text(pages)
            text_s = run(pdf, "text", la, "str", "utf-8", strip)
            xml_s = run(pdf, "xml", la, "str", "", strip)
        except BaseException as e:  # noqa
            ctx.violation(fam, inp, "outputs", type(e).__name__ + ": " + str(e)[:200], "conversion raised")
            continue
        ctx.case(fam, pdf, nontrivial=special, sample={"text": text_s[:80], "xml_len": len(xml_s)})
        # ---- oracle: text
        if text_s != want_text:
            ctx.violation(fam, inp, want_text[:300], text_s[:300], "plain-text output is not the in-order text of the layout tree")
        # ---- oracle: xml parses and matches the tree
        wf_required = strip or not any(ord(c) in CONTROL for c in want_text)
        try:
            dom = xml.dom.minidom.parseString(xml_s.encode("utf-8"))
        except Exception as e:  # noqa
            dom = None
            if wf_required:
                ctx.violation(fam, inp, "well-formed XML", str(e)[:200], "XML output is not well-formed")
        if dom is not None:
            root = dom.documentElement
            m = dom_matches(root, ("pages", {}, ppages), strip)
            if m:
                ctx.violation(fam, inp, "the layout tree", m, "XML output does not reproduce the layout tree")
        # ---- sinks and codecs
        for codec in ["utf-8", "utf-16", "latin-1"]:
            for otype, ref in (("text", text_s), ("xml", xml_s)):
                try:
                    ref.encode(codec)
                except UnicodeEncodeError:
                    continue
                try:
                    b = run(pdf, otype, la, "bytes", codec, strip)
                except BaseException as e:  # noqa
                    ctx.violation(fam, dict(inp, codec=codec, output=otype), "bytes", type(e).__name__ + ": " + str(e)[:100], "binary sink raised")
                    continue
                if otype == "xml":
                    ref2 = ref.replace('<?xml version="1.0" ?>', '<?xml version="1.0" encoding="%s" ?>' % codec, 1)
                    got = b"".join(x.encode(codec) for x in [ref2]) if False else None
                    # the converter encodes each write separately: compare piecewise-decodable content
                    dec = decode_pieces(b, codec)
                else:
                    ref2 = ref
                    dec = decode_pieces(b, codec)
                if dec != ref2:
                    ctx.violation(fam, dict(inp, codec=codec, output=otype), ref2[:200], (dec or "")[:200],
                                  "binary sink with codec %s does not yield the same characters as the text sink" % codec)
        tcases.append((gpages, CLs([CZ(ord(c)) for c in text_s])))
        metas_t.append(inp)
        xcases.append(("((None : option str), %s, %s)" % (gbool(strip), gpages), CLs([CZ(ord(c)) for c in xml_s])))
        metas_x.append(inp)
    for tag, fn, cs, ms in (("c11t", "run_text", tcases, metas_t), ("c11x", "run_xml", xcases, metas_x)):
        bad = common.coq_cases(tag, ["Model.Convert", "Model.ConvertRun"], fn, cs, shard=max(2, len(cs) // 32))
        for j, shown in sorted(bad.items()):
            ctx.disagree(fn, ms[j], shown[:600], "implementation output")


def decode_pieces(b, codec):
    """the converters encode every write() separately; with utf-16 each piece carries its own BOM"""
    if codec != "utf-16":
        try:
            return b.decode(codec)
        except UnicodeDecodeError:
            return None
    bom = "x".encode("utf-16")[:2]
    parts = b.split(bom)
    try:
        return "".join((bom + p_).decode("utf-16") for p_ in parts[1:]) if parts[0] == b"" else None
    except UnicodeDecodeError:
        return None


def escape_cases(ctx, n):
    from pdfminer.utils import enc
    cs = []
    for i in range(n):
        r = ctx.sub("esc", i)
        s = "".join(r.choice(SPECIAL + ["\x01", "\n", "中", "\U0001f600", "&#x27;"]) for _ in range(r.randint(0, 12)))
        got = enc(s)
        ctx.case("escape", s, nontrivial=any(c in s for c in "<>&\"'"))
        try:
            back = xml.dom.minidom.parseString(("<a v=\"%s\">%s</a>" % (got, got)).encode("utf-8")) if not any(ord(c) in CONTROL for c in s) else None
        except Exception as e:  # noqa
            ctx.violation("escape", {"s": s}, "parsable", str(e)[:100], "escaped text breaks XML")
            back = None
        if back is not None:
            el = back.documentElement
            data = "".join(ch.data for ch in el.childNodes)
            if data != s or el.getAttribute("v") != s.replace("\n", " "):
                ctx.violation("escape", {"s": s}, s, data, "escaped text does not read back")
        cs.append((gs_(s), CLs([CZ(ord(c)) for c in got])))
    bad = common.coq_cases("c11e", ["Model.Convert", "Model.ConvertRun"], "run_escape", cs, shard=500)
    for j, shown in sorted(bad.items()):
        ctx.disagree("escape", {"case": cs[j][0]}, shown, cs[j][1])


def correspondence(ctx):
    escape_cases(ctx, ctx.n(300, 5000))
    cases(ctx, ctx.n(80, 1500))


def oracle(ctx):
    pass


def known_match(finding, item):
    return False


def confirm_known(ctx, finding):
    return False


def replay(ctx, data):
    item = data.get("violation") or (data.get("correspondence_disagreements") or [None])[0]
    print("replay: re-run ./check C11; stored case:", str(item)[:1500])


if __name__ == "__main__":
    sys.exit(common.main(sys.modules[__name__]))
