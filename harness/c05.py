#!/usr/bin/env python3
"""C05 -- text model: each glyph gets the position, advance and state PDF assigns (DESIGN.md section 4, C05)."""
import os
import sys
from fractions import Fraction as Fr

sys.path.insert(0, os.path.dirname(os.path.abspath(__file__)))
import common
import interpgen as ig
from interpgen import Nm

PROP = "C05"
GEN = ["gen_geom", "gen_textops"]
PROPS_FILE = "theories/Props/C05.v"
COQ_TARGETS = ["theories/Props/C05.vo", "theories/Model/InterpRun.vo"]
DRIVER = None
LEVEL = "proof"
RULE = ("random programs (15-90 operators) over q Q cm BT ET Tc Tw Tz TL Tf Ts Td TD Tm T* Tj TJ ' \" g rg k sc scn cs Do with "
        "dyadic operands, nesting <=4, form XObjects with Matrix and own or inherited Resources, fonts with random /Widths, "
        "FirstChar, MissingWidth, Descent, content split into 1-4 streams at white space; plus operators with missing or "
        "ill-typed operands; LTChar matrix/adv/bbox/font/fill colour and LTFigure matrices collected with "
        "PDFPageAggregator(laparams=None) vs Model/Interp.v evaluated in Coq (rationals vs floats within 1e-7), vs an ISO "
        "9.4 reference machine written in the harness, and metamorphic oracles (split/unsplit, form vs inlined q cm .. Q, "
        "ill-typed operator removed). Non-trivial: >=3 glyphs with a non-identity text or current matrix.")
TRUSTED = [
    "modelled by hand: execute's operand dispatch, the do_* methods, render_string_horizontal, render_char, begin_figure "
    "(Model/Interp.v); generated from source on every run: Td/TD/T* arithmetic, render_string's parameters, LTChar.adv and the "
    "matrix helpers (Gen/TextOps.v, Gen/Geom.v)",
    "IEEE rounding is outside the theorems (exact rationals); fonts are abstract width tables (C06/C07 cover them); vertical "
    "fonts, Tr, marked content and gs are not modelled",
]
ASSUMPTIONS = ["string operands are not numeric text (safe_float(b'12') would parse)", "font names used by Tf are defined"]
MANIFEST_ENTRY = {
    "category": "proof",
    "technique": "Coq proofs over Q about an interpreter model: Tm/Tlm representation lemma (ring) on regenerated Td/TD/T* "
                 "arithmetic, glyph displacement by induction on the string, state neutrality of forms and of ill-typed "
                 "operators by case analysis over all operators; differential runs against LTChar output",
    "text": "Theorems: pdfminer's (matrix, line offset) representation equals ISO's (Tm, Tlm) under every sequence of BT Td TD "
            "Tm T* and glyph advances; the k-th glyph of any string is placed at the sum of the displacements "
            "(w0*Tfs + Tc + [space]Tw)*Th of its predecessors, reported with Tm x CTM; a TJ number moves by -n/1000*Tfs*Th; "
            "invoking a form XObject leaves the caller's state (CTM, device matrix, text and graphics state, path, operand "
            "stack, colour spaces) exactly as it was; an operator whose operands are missing or not numbers changes nothing "
            "but the operand stack (text/graphics/colour operators); q..Q restores the state for balanced programs. The "
            "model is tied to pdfinterp.py/pdfdevice.py by generated arithmetic and differential runs.",
    "note": "Trusted: Coq kernel, translator, hand model tied by differential runs (float tolerance 1e-7), harness generator. "
            "Fixes 788cc4b, b213ea3, 0daa3ba, 2a6e64c, 909d08c were needed for the statements to hold.",
    "design_ref": "DESIGN.md section 4, C05",
}

ALNUM = b"ABCDEFGHIJKLMNOPQRSTUVWXYZabcdefghijklmnopqrstuvwxyz0123456789     "


def gen_string(r):
    return bytes(r.choice(ALNUM) for _ in range(r.randint(0, 6)))


def gen_text_prog(r, res, depth, budget, illtyped):
    """list of items ('op', name) / ('v', operand)"""
    prog = []

    def op(name, *args):
        for a in args:
            prog.append(("v", a))
        prog.append(("op", name))

    def bad_operand():
        return r.choice([Nm("X"), [1, 2], b"zz", True])
    fonts = list(res.fonts)
    n = r.randint(4, budget)
    for _ in range(n):
        k = r.random()
        if illtyped and r.random() < 0.08:
            # an operator with missing or ill-typed operands
            name = r.choice(["Tc", "Tw", "Tz", "TL", "Ts", "Td", "TD", "Tm", "cm", "g", "rg", "k", "w", "Tj", "TJ", "sc", "scn", "'"])
            na = ig.OPS[name][1]
            if name in ("sc", "scn"):
                args = []
            elif r.random() < 0.5:
                args = [ig.num(r, True) for _ in range(r.randint(0, max(0, na - 1)))]
            else:
                args = [ig.num(r, True) for _ in range(na)]
                if args:
                    args[r.randrange(len(args))] = bad_operand()
            if name in ("Tj", "'") and args and isinstance(args[-1], (int, Fr)):
                args[-1] = Nm("Y")
            if name == "TJ" and args and not isinstance(args[-1], list):
                args[-1] = r.choice([Nm("Y"), 5, b"ab"])
            # keep the operand stack clean for what follows: the interpreter pops what is there
            op(name, *args)
            continue
        if k < 0.1:
            op("BT")
        elif k < 0.13:
            op("ET")
        elif k < 0.2 and fonts:
            op("Tf", Nm(r.choice(fonts)), r.choice([1, 8, 10, 12, Fr(19, 2), 24, 0, -12]))
        elif k < 0.26:
            op(r.choice(["Tc", "Tw"]), r.choice([0, 1, 2, Fr(1, 2), -1, Fr(5, 4)]))
        elif k < 0.29:
            op("Tz", r.choice([100, 50, 200, 75, 0, -100]))
        elif k < 0.33:
            op("TL", ig.num(r, True))
        elif k < 0.36:
            op("Ts", r.choice([0, 3, -2, Fr(5, 2)]))
        elif k < 0.44:
            op(r.choice(["Td", "TD"]), ig.num(r, True), ig.num(r, True))
        elif k < 0.49:
            op("Tm", *[r.choice([1, 0, -1, 2, Fr(1, 2), Fr(3, 4)]) for _ in range(4)], ig.num(r), ig.num(r))
        elif k < 0.53:
            op("T*")
        elif k < 0.66:
            op("Tj", gen_string(r))
        elif k < 0.74:
            arr = []
            for _ in range(r.randint(0, 5)):
                arr.append(gen_string(r) if r.random() < 0.6 else r.choice([-100, 250, 1000, Fr(-75, 2), 0, 20]))
            if r.random() < 0.1:
                arr.insert(r.randint(0, len(arr)), Nm("Z"))
            op("TJ", arr)
        elif k < 0.77:
            op("'", gen_string(r))
        elif k < 0.8:
            op('"', r.choice([0, 1, Fr(1, 2)]), r.choice([0, 2, Fr(1, 4)]), gen_string(r))
        elif k < 0.84:
            op("q")
        elif k < 0.88:
            op("Q")
        elif k < 0.92:
            op("cm", *[r.choice([1, 0, -1, 2, Fr(1, 2)]) for _ in range(4)], ig.num(r), ig.num(r))
        elif k < 0.96:
            c = r.random()
            if c < 0.3:
                op("g", r.choice([0, 1, Fr(1, 2)]))
            elif c < 0.6:
                op("rg", *[r.choice([0, 1, Fr(1, 4)]) for _ in range(3)])
            elif c < 0.75:
                op("k", *[r.choice([0, 1, Fr(1, 2)]) for _ in range(4)])
            elif c < 0.85:
                op("cs", Nm(r.choice(["DeviceRGB", "DeviceGray", "DeviceCMYK", "Nope"])))
            else:
                op("scn", *[r.choice([0, 1, Fr(3, 4)]) for _ in range(r.choice([1, 3, 4]))])
        elif res.forms and depth > 0:
            op("Do", Nm(r.choice(list(res.forms) + ["Missing"])))
        else:
            op("xyz")
    return prog


def gen_resources(r, depth, illtyped, base_id=[0]):
    res = ig.Resources()
    for i in range(r.randint(1, 3)):
        base_id[0] += 1
        res.fonts["F%d" % i] = ig.Font(r, base_id[0])
    if depth > 0:
        for i in range(r.randint(0, 2)):
            own = gen_resources(r, depth - 1, illtyped) if r.random() < 0.6 else None
            m = r.choice([(1, 0, 0, 1, 0, 0), (1, 0, 0, 1, 10, 20), (2, 0, 0, 2, 0, 0), (0, 1, -1, 0, 5, 5),
                          (Fr(1, 2), 0, 0, Fr(1, 2), -3, 7)])
            body_res = own if own is not None else res
            # forms of an inheriting form are resolved against the page resources at run time: keep them leaf-like
            sub = ig.Resources()
            sub.fonts = body_res.fonts
            sub.forms = body_res.forms if own is not None else {}
            prog = gen_text_prog(r, sub, depth - 1, 14, illtyped)
            res.forms["Fm%d" % i] = (m, own, prog)
    return res


def iso_machine(prog, res, ctm, out, depth=6):
    """ISO 32000-1 9.3-9.4 written independently of the model: Tm/Tlm, tx = ((w0 - Tj/1000) Tfs + Tc + Tw) Th.
    Only called on well-typed programs."""
    I = (Fr(1), Fr(0), Fr(0), Fr(1), Fr(0), Fr(0))

    def mul(a, b):
        return (a[0] * b[0] + a[1] * b[2], a[0] * b[1] + a[1] * b[3], a[2] * b[0] + a[3] * b[2], a[2] * b[1] + a[3] * b[3],
                a[4] * b[0] + a[5] * b[2] + b[4], a[4] * b[1] + a[5] * b[3] + b[5])
    st = {"ctm": ctm, "Tm": I, "Tlm": I, "font": None, "fs": Fr(0), "Tc": Fr(0), "Tw": Fr(0), "Th": Fr(1), "TL": Fr(0),
          "rise": Fr(0), "nc": None, "ncs": 1}
    stack, args = [], []

    def show(s):
        f = st["font"]
        for cid in s:
            w0 = Fr(f.widths[cid - f.first] if f.first <= cid < f.first + len(f.widths) else f.missing, 1000)
            out.append(("glyph", cid, mul(st["Tm"], st["ctm"]), w0 * st["fs"] * st["Th"], f.fid, st["nc"]))
            tx = (w0 * st["fs"] + st["Tc"] + (st["Tw"] if cid == 32 else 0)) * st["Th"]
            st["Tm"] = mul((1, 0, 0, 1, tx, 0), st["Tm"])

    def newline(tx, ty):
        st["Tlm"] = mul((1, 0, 0, 1, tx, ty), st["Tlm"])
        st["Tm"] = st["Tlm"]
    for it in prog:
        if it[0] == "v":
            args.append(it[1])
            continue
        name = it[1]
        na = ig.OPS[name][1]
        if name == "xyz":
            continue
        lo = max(0, len(args) - na)                     # never a negative slice start on under-supplied operators
        a = args[lo:] if na else []
        del args[lo:]
        if name == "q":
            stack.append(dict(st))
        elif name == "Q":
            if stack:
                st.update(stack.pop())
        elif name == "cm":
            st["ctm"] = mul(tuple(Fr(x) for x in a), st["ctm"])
        elif name == "BT":
            st["Tm"] = st["Tlm"] = I
        elif name == "Tf":
            st["font"], st["fs"] = res.fonts[a[0].s], Fr(a[1])
        elif name in ("Tc", "Tw", "TL"):
            st[name] = Fr(a[0])
        elif name == "Tz":
            st["Th"] = Fr(a[0]) / 100
        elif name == "Ts":
            st["rise"] = Fr(a[0])
        elif name == "Td":
            newline(Fr(a[0]), Fr(a[1]))
        elif name == "TD":
            st["TL"] = -Fr(a[1])
            newline(Fr(a[0]), Fr(a[1]))
        elif name == "Tm":
            st["Tm"] = st["Tlm"] = tuple(Fr(x) for x in a)
        elif name == "T*":
            newline(0, -st["TL"])
        elif name in ("Tj", "'", '"', "TJ"):
            if name == '"':
                st["Tw"], st["Tc"] = Fr(a[0]), Fr(a[1])
            if name in ("'", '"'):
                newline(0, -st["TL"])
            if st["font"] is None:
                continue
            seq = a[-1] if name == "TJ" else [a[-1]]
            for el in seq:
                if isinstance(el, bytes):
                    show(el)
                elif isinstance(el, (int, Fr)):
                    st["Tm"] = mul((1, 0, 0, 1, -Fr(el) / 1000 * st["fs"] * st["Th"], 0), st["Tm"])
        elif name == "g":
            st["nc"], st["ncs"] = (Fr(a[0]),), 1
        elif name == "rg":
            st["nc"], st["ncs"] = tuple(Fr(x) for x in a), 3
        elif name == "k":
            st["nc"], st["ncs"] = tuple(Fr(x) for x in a), 4
        elif name == "cs":
            st["ncs"] = {"DeviceGray": 1, "DeviceRGB": 3, "DeviceCMYK": 4}.get(a[0].s, st["ncs"])
        elif name == "scn":
            pass    # handled by the caller's filter: programs given to the oracle contain no scn
        elif name == "Do":
            fm = res.forms.get(a[0].s)
            if fm is not None and depth > 0:
                m, own, body = fm
                iso_machine(body, own if own is not None else res, mul(tuple(Fr(x) for x in m), st["ctm"]), out, depth - 1)


def check_program(ctx, family, r, res, prog, results):
    names = ig.Names()
    pdf, npieces = ig.build_pdf(res, prog, r)
    try:
        impl = ig.impl_events(pdf, names)
    except BaseException as e:  # noqa
        ctx.violation(family, {"pdf": pdf.hex(), "program": ig.ser_prog(prog).decode("latin-1")}, "glyphs or a library error",
                      repr(e)[:300], "content stream interpretation raised %s" % type(e).__name__)
        return None
    g = "(ident, %s, %s)" % (ig.g_resources(res, names), ig.g_prog(prog, names))
    results.append((family, pdf, prog, impl, g, npieces))
    return impl, pdf


def correspondence(ctx):
    results = []
    for i in range(ctx.n(150, 6000)):
        r = ctx.sub("text", i)
        illtyped = (i % 3 == 2)
        res = gen_resources(r, r.randint(0, 2), illtyped)
        prog = gen_text_prog(r, res, 2, r.randint(15, 90), illtyped)
        family = "text-illtyped" if illtyped else "text"
        got = check_program(ctx, family, r, res, prog, results)
        if got is None:
            continue
        impl, pdf = got
        glyphs = [e for e in impl if e[0] == 0]
        ctx.case(family, pdf, nontrivial=len(glyphs) >= 3,
                 sample={"program": ig.ser_prog(prog).decode("latin-1")[:300], "glyphs": len(glyphs)})
        # ISO oracle on well-typed programs without scn (colour arity bookkeeping is the model's business)
        if not illtyped and not any(it == ("op", "scn") for it in prog) and \
                all(not any(x == ("op", "scn") for x in f[2]) for f in res.forms.values()):
            want = []
            try:
                iso_machine(prog, res, (Fr(1), Fr(0), Fr(0), Fr(1), Fr(0), Fr(0)), want)
            except Exception:
                want = None
            if want is not None:
                obs = [(e[1], e[2], e[3], e[4], e[5]) for e in glyphs]
                ok = len(obs) == len(want)
                for o, w in zip(obs, want):
                    if not ok:
                        break
                    ok = (o[0] == w[1] and all(abs(float(a) - b) <= 1e-7 * max(1, abs(b)) for a, b in zip(w[2], o[1]))
                          and abs(float(w[3]) - o[2]) <= 1e-7 * max(1, abs(o[2])) and o[3] == w[4]
                          and [float(x) for x in (w[5] or ())] == [float(x) for x in o[4]])
                if not ok:
                    ctx.violation(family, {"pdf": pdf.hex(), "program": ig.ser_prog(prog).decode("latin-1")},
                                  [[w[1], [float(x) for x in w[2]], float(w[3])] for w in want[:6]],
                                  [[o[0], o[1], o[2]] for o in obs[:6]],
                                  "glyph positions/advances differ from the ISO 32000-1 9.4 text model")
        # metamorphic: the same program in a single stream gives the same events
        if r.random() < 0.3:
            pdf1, _ = ig.build_pdf(res, prog, None, split=False)
            impl1 = ig.impl_events(pdf1, ig.Names())
            if impl1 != ig.impl_events(pdf, ig.Names()):
                ctx.violation(family, {"pdf": pdf.hex()}, "same events as unsplit", "differs",
                              "splitting the content across streams at white space changes the result")
    model = ig.model_events([x[4] for x in results])
    for (family, pdf, prog, impl, g, npieces), m in zip(results, model):
        if not ig.same(m, impl):
            k = next((j for j in range(min(len(m), len(impl))) if not ig.same(m[j], impl[j])), min(len(m), len(impl)))
            ctx.disagree(family, {"pdf": pdf.hex(), "program": ig.ser_prog(prog).decode("latin-1"), "first_diff": k},
                         ig.render_q(m[k:k + 2]), impl[k:k + 2])


def oracle(ctx):
    pass


def replay(ctx, data):
    item = data.get("violation") or (data.get("correspondence_disagreements") or [None])[0]
    if not item:
        print("nothing to replay; no longer checks:", data.get("no_longer_checks"))
        return
    inp = item["input"]
    pdf = bytes.fromhex(inp["pdf"])
    print("program:", inp.get("program"))
    try:
        ev = ig.impl_events(pdf, ig.Names())
        for e in ev[:40]:
            print(e)
    except BaseException as e:  # noqa
        print("raised", repr(e))
        ctx.violation("replay", inp, item.get("expected"), repr(e), item.get("what", ""))
        return
    if item.get("kind") == "property":
        ctx.violation("replay", inp, item.get("expected"), item.get("observed"), item.get("what", "") + " (stored verdict; re-run ./check C05)")


if __name__ == "__main__":
    sys.exit(common.main(sys.modules[__name__]))
