"""Shared machinery of every property check (see DESIGN.md 2.5).

A property module harness/cXX.py defines
    PROP            = "C20"
    GEN             = ["gen_geom"]                   # translator modules it depends on ([] if none)
    COQ_TARGETS     = ["theories/Props/C20.vo", "theories/Extract/ExtC20.vo"]
    PROPS_FILE      = "theories/Props/C20.v"
    DRIVER          = "c20"                          # ocaml/c20_driver.ml + coq/extracted/c20.ml (None: no driver)
    TRUSTED / ASSUMPTIONS : lists of strings
    RULE            = "how cases are generated and what makes one non-trivial"
    def correspondence(ctx) -> None                  # calls ctx.case(...) / ctx.disagree(...)
    def oracle(ctx, boost) -> None                   # calls ctx.violation(...)
    def replay(ctx, data) -> None                    # re-run one stored case
and calls common.main(sys.modules[__name__]).
"""
import fcntl
import glob
import hashlib
import json
import os
import random
import re
import subprocess
import sys
import time

VERIF = os.path.dirname(os.path.dirname(os.path.abspath(__file__)))
REPO = os.environ.get("VERIF_REPO", "/repo")
COQ = os.path.join(VERIF, "coq")
BUILD = os.path.join(VERIF, ".build")
WORK = os.path.join(VERIF, ".work")
PY = "/venv/bin/python"

BASE_TRUSTED = [
    "Coq 8.16.1 kernel and coqc; vm_compute (bytecode VM); no native_compute",
    "translator/py2coq.py and translator/gen_*.py (Python AST -> Gallina text, fail-closed)",
    "Coq extraction with ExtrOcamlBasic only (Extract Inductive for bool, option, unit, list, prod, sumbool, comparison; no Extract Constant)",
    "ocaml/zutil.ml and the per-property OCaml driver (line protocol around the extracted code)",
    "harness/*.py generators, canonicalisers and CPython 3.12",
]


def ensure_repo_on_path():
    """Import pdfminer from the repository under test, never from elsewhere."""
    if REPO not in sys.path:
        sys.path.insert(0, REPO)
    import logging
    logging.disable(logging.CRITICAL)
    import pdfminer  # noqa
    got = os.path.dirname(os.path.dirname(os.path.abspath(pdfminer.__file__)))
    if os.path.realpath(got) != os.path.realpath(REPO):
        raise RuntimeError("pdfminer imported from %s, expected %s" % (got, REPO))


class Lock:
    def __enter__(self):
        os.makedirs(WORK, exist_ok=True)
        self.f = open(os.path.join(WORK, "lock"), "w")
        fcntl.flock(self.f, fcntl.LOCK_EX)
        return self

    def __exit__(self, *a):
        fcntl.flock(self.f, fcntl.LOCK_UN)
        self.f.close()


def sh(cmd, timeout, cwd=None, inp=None):
    try:
        p = subprocess.run(cmd, shell=isinstance(cmd, str), cwd=cwd, input=inp, timeout=timeout,
                           stdout=subprocess.PIPE, stderr=subprocess.STDOUT, text=True)
        return p.returncode, p.stdout
    except subprocess.TimeoutExpired as e:
        out = e.stdout if isinstance(e.stdout, str) else (e.stdout or b"").decode("utf-8", "replace")
        return 124, out + "\nTIMEOUT after %ss" % timeout


def make_coqproject():
    files = sorted(glob.glob(os.path.join(COQ, "theories", "**", "*.v"), recursive=True))
    rel = [os.path.relpath(f, COQ) for f in files if not os.path.basename(f).startswith("_")]   # not tools/goal.sh's scratch file
    text = open(os.path.join(COQ, "_CoqProject.in")).read() + "\n".join(rel) + "\n"
    path = os.path.join(COQ, "_CoqProject")
    old = open(path).read() if os.path.exists(path) else None
    if old != text or not os.path.exists(os.path.join(COQ, "Makefile")):
        open(path, "w").write(text)
        rc, out = sh("coq_makefile -f _CoqProject -o Makefile", 60, cwd=COQ)
        if rc != 0:
            raise RuntimeError("coq_makefile failed: " + out)


def run_translator(mods):
    if not mods:
        return True, ""
    rc, out = sh([sys.executable, os.path.join(VERIF, "translator", "genall.py"), REPO] + list(mods), 120)
    return rc == 0, out


def coq_make(targets, timeout=1500, jobs=None):
    """returns (ok, log)."""
    os.makedirs(os.path.join(COQ, "extracted"), exist_ok=True)
    make_coqproject()
    jobs = jobs or int(os.environ.get("VERIF_JOBS", "16"))
    # Props files are always recompiled so that Print Assumptions is re-emitted
    for t in targets:
        if "/Props/" in t or "/Extract/" in t:
            p = os.path.join(COQ, t)
            if os.path.exists(p):
                os.remove(p)
    rc, out = sh(["make", "-j%d" % jobs] + list(targets), timeout, cwd=COQ)
    return rc == 0, out


def parse_assumptions(log, props_file):
    """Pair each `Print Assumptions X` of the Props file with the answer in the log (in order)."""
    src = open(os.path.join(COQ, props_file)).read()
    names = re.findall(r"^Print Assumptions\s+([A-Za-z0-9_']+)\.", src, re.M)
    # split the log at the COQC line of the props file
    m = re.search(r"COQC " + re.escape(props_file) + r"\n(.*?)(?=\nCOQC |\Z)", log, re.S)
    body = m.group(1) if m else log
    blocks = re.split(r"(?=Closed under the global context|Axioms:)", body)
    answers = []
    for b in blocks:
        b = b.strip()
        if b.startswith("Closed under the global context"):
            answers.append("closed under the global context")
        elif b.startswith("Axioms:"):
            ax = re.findall(r"^([A-Za-z0-9_.']+)\s*:", b[len("Axioms:"):], re.M)
            answers.append("axioms: " + ", ".join(ax))
    res = {}
    for i, n in enumerate(names):
        res[n] = answers[i] if i < len(answers) else "not reported"
    return res


def theorem_names(props_file):
    src = open(os.path.join(COQ, props_file)).read()
    return re.findall(r"^\s*(?:Theorem|Example|Corollary)\s+([A-Za-z0-9_']+)", src, re.M)


def failing_theorem(log):
    """Best-effort: name the file/line where coqc stopped."""
    m = re.search(r'File "\./?([^"]+)", line (\d+), characters [^\n]*\n(Error:[^\n]*(?:\n[^\n]+){0,6})', log)
    if not m:
        return {"file": None, "line": None, "error": log[-1500:]}
    path, line, err = m.group(1), int(m.group(2)), m.group(3)
    name = None
    try:
        lines = open(os.path.join(COQ, path)).read().split("\n")
        for i in range(min(line, len(lines)) - 1, -1, -1):
            mm = re.match(r"\s*(?:Time\s+)?(?:Theorem|Lemma|Example|Corollary|Definition|Fixpoint)\s+([A-Za-z0-9_']+)", lines[i])
            if mm:
                name = mm.group(1)
                break
    except OSError:
        pass
    return {"file": path, "line": line, "statement": name, "error": err[:800]}


def build_driver(name):
    """concatenate extracted module + zutil + driver and compile (only when stale)."""
    os.makedirs(BUILD, exist_ok=True)
    srcs = [os.path.join(COQ, "extracted", name + ".ml"), os.path.join(VERIF, "ocaml", "zutil.ml"),
            os.path.join(VERIF, "ocaml", name + "_driver.ml")]
    for s in srcs:
        if not os.path.exists(s):
            return False, "missing " + s
    text = "".join(open(s).read() + "\n" for s in srcs)
    main = os.path.join(BUILD, name + "_main.ml")
    exe = os.path.join(BUILD, name + "_model")
    if os.path.exists(main) and os.path.exists(exe) and open(main).read() == text:
        return True, "up to date"
    open(main, "w").write(text)
    if os.path.exists(exe):
        os.remove(exe)
    rc, out = sh(["ocamlfind", "ocamlopt", "-w", "-a", "-package", "str", "-linkpkg",
                  name + "_main.ml", "-o", name + "_model"], 600, cwd=BUILD)
    return rc == 0 and os.path.exists(exe), out


def run_model(name, lines, timeout=600):
    """Feed lines to the extracted model, return the list of output lines (same length)."""
    exe = os.path.join(BUILD, name + "_model")
    inp = "\n".join(lines) + "\n"
    p = subprocess.run([exe], input=inp, stdout=subprocess.PIPE, stderr=subprocess.PIPE, text=True, timeout=timeout)
    out = p.stdout.split("\n")
    if out and out[-1] == "":
        out.pop()
    if len(out) != len(lines):
        raise RuntimeError("model %s: %d inputs, %d outputs (rc=%s, stderr=%s)" % (
            name, len(lines), len(out), p.returncode, p.stderr[-500:]))
    return out


def hexb(b):
    return b.hex() if b else "-"


class Ctx:
    def __init__(self, prop, tier, seed):
        self.prop, self.tier, self.seed = prop, tier, seed
        self.rng = random.Random(seed)
        self.evaluations = 0
        self.nontrivial = set()
        self.samples = []
        self.histogram = {}
        self.disagreements = []
        self.violations = []
        self.notes = []
        self.t0 = time.time()
        self.boost = 1

    def n(self, quick, thorough):
        """case count by tier (scaled up while searching for a failing input)."""
        base = quick if self.tier == "quick" else thorough
        return base * self.boost

    def sub(self, *key):
        """deterministic sub-generator so that every case replays alone."""
        h = hashlib.sha256(repr((self.seed,) + key).encode()).digest()
        return random.Random(int.from_bytes(h[:8], "big"))

    def case(self, family, key, nontrivial=True, sample=None):
        self.evaluations += 1
        self.histogram[family] = self.histogram.get(family, 0) + 1
        if nontrivial:
            self.nontrivial.add(hashlib.sha256(repr((family, key)).encode()).hexdigest()[:16])
        if sample is not None and sum(1 for s in self.samples if s.get("family") == family) < 2 and len(self.samples) < 12:
            self.samples.append({"family": family, "case": sample})

    def disagree(self, family, inp, model, impl):
        self.disagreements.append({"kind": "correspondence", "family": family, "input": inp,
                                   "model": model, "impl": impl})

    def violation(self, family, inp, expected, observed, what):
        self.violations.append({"kind": "property", "family": family, "input": inp,
                                "expected": expected, "observed": observed, "what": what})

    def note(self, s):
        self.notes.append(s)


def load_known(prop):
    path = os.path.join(VERIF, "known_findings.json")
    if not os.path.exists(path):
        return []
    data = json.load(open(path))
    return [f for f in data.get("findings", []) if f.get("property") == prop]


def matches(finding, item):
    """A finding lists {family, match: {...}}; an item is covered when its family matches and the
    module's recogniser (if any) accepts it."""
    return finding.get("family") == item.get("family") and finding.get("status", "open") == "open"


def write_replay(prop, payload):
    os.makedirs(os.path.join(VERIF, "replays"), exist_ok=True)
    blob = json.dumps(payload, sort_keys=True, default=str)
    h = hashlib.sha256(blob.encode()).hexdigest()[:12]
    rel = "replays/%s-%s.json" % (prop, h)
    with open(os.path.join(VERIF, rel), "w") as f:
        json.dump(payload, f, indent=1, sort_keys=True, default=str)
    return rel


def write_evidence(mod, ctx, tier, coverage, violations, assumptions):
    os.makedirs(os.path.join(VERIF, "evidence"), exist_ok=True)
    ev = {
        "property_id": mod.PROP, "tier": tier, "seed": ctx.seed, "level": getattr(mod, "LEVEL", "proof"),
        "coverage": coverage, "assumptions": assumptions,
        "wall_s": round(time.time() - ctx.t0, 2), "violations": violations,
    }
    path = os.path.join(VERIF, "evidence", mod.PROP + ".json")
    with open(path + ".tmp", "w") as f:
        json.dump(ev, f, indent=1, default=str)
    os.replace(path + ".tmp", path)


def main(mod, argv=None):
    import argparse
    ap = argparse.ArgumentParser()
    ap.add_argument("--tier", default=os.environ.get("VERIF_TIER", "quick"), choices=["quick", "thorough"])
    ap.add_argument("--replay", default=None)
    ap.add_argument("--no-build", action="store_true", help="reuse compiled Coq/driver (development only)")
    args = ap.parse_args(argv)
    seed = int(os.environ.get("VERIF_SEED", "20260926"))
    ctx = Ctx(mod.PROP, args.tier, seed)
    os.environ.setdefault("PYTHONHASHSEED", "0")
    ensure_repo_on_path()

    breaks = []          # proof / tie breaks: dicts
    assumptions_map = {}
    obligations = theorem_names(mod.PROPS_FILE)
    discharged = 0
    driver_ok = True
    checker_cmd = "cd coq && make %s  (coqc 8.16.1, full .vo build)" % " ".join(mod.COQ_TARGETS)

    if not args.no_build:
        with Lock():
            ok, out = run_translator(getattr(mod, "GEN", []))
            if not ok:
                breaks.append({"what": "translator fail-closed (source no longer in the translated subset)",
                               "detail": [l for l in out.split("\n") if "FAIL-CLOSED" in l]})
            ok, log = coq_make(mod.COQ_TARGETS)
            if ok:
                discharged = len(obligations)
                assumptions_map = parse_assumptions(log, mod.PROPS_FILE)
            else:
                ft = failing_theorem(log)
                breaks.append({"what": "proof obligation no longer checks", "detail": ft})
                # which obligations still compile cannot be known without them: count none of the
                # Props file unless the failure is elsewhere and the Props file built
                discharged = 0
            if getattr(mod, "DRIVER", None):
                # the model/extraction may still build when a proof is broken
                if not ok:
                    ok2, log2 = coq_make([t for t in mod.COQ_TARGETS if "/Extract/" in t])
                else:
                    ok2 = True
                if ok2:
                    driver_ok, dout = build_driver(mod.DRIVER)
                    if not driver_ok:
                        breaks.append({"what": "model driver does not build", "detail": dout[-1500:]})
                else:
                    driver_ok = False
                    breaks.append({"what": "model no longer extracts (generated definitions changed shape)",
                                   "detail": failing_theorem(log2)})
    else:
        discharged = len(obligations)

    if args.replay:
        data = json.load(open(args.replay))
        mod.replay(ctx, data)
        for v in ctx.violations + ctx.disagreements:
            print("REPLAY-FAILS:", json.dumps(v, default=str)[:2000])
        print("replay done: %d failing" % len(ctx.violations + ctx.disagreements))
        return 1 if (ctx.violations or ctx.disagreements) else 0

    # correspondence: model vs implementation
    if driver_ok:
        try:
            mod.correspondence(ctx)
        except Exception as e:  # a crashing harness must not look like success
            import traceback
            breaks.append({"what": "correspondence harness crashed", "detail": traceback.format_exc()[-2000:]})
    # property oracle directly on the implementation; larger budget while searching
    if breaks or ctx.disagreements:
        ctx.boost = int(os.environ.get("VERIF_SEARCH_BOOST", "4"))
    try:
        mod.oracle(ctx)
    except Exception as e:
        import traceback
        breaks.append({"what": "oracle harness crashed", "detail": traceback.format_exc()[-2000:]})

    # known findings
    known = load_known(mod.PROP)
    recog = getattr(mod, "known_match", None)
    new_viol, new_dis = [], []
    seen_known = {}
    for item, bucket in [(v, new_viol) for v in ctx.violations] + [(d, new_dis) for d in ctx.disagreements]:
        hit = None
        for f in known:
            if f.get("status", "open") != "open":
                continue
            if recog is not None and recog(f, item):
                hit = f
                break
        if hit is not None:
            seen_known.setdefault(hit["key"], hit)
        else:
            bucket.append(item)
    # a listed finding is also re-confirmed by its own witness
    confirm = getattr(mod, "confirm_known", None)
    for f in known:
        if f.get("status", "open") != "open":
            continue
        if confirm is not None:
            try:
                if confirm(ctx, f):
                    seen_known.setdefault(f["key"], f)
                else:
                    ctx.note("known finding %s no longer reproduces" % f["key"])
            except Exception as e:
                ctx.note("known finding %s: confirmation crashed: %r" % (f["key"], e))
    for k, f in sorted(seen_known.items()):
        print("KNOWN-FINDING: property=%s %s" % (mod.PROP, f["what"]))

    rc = 0
    replay_paths = []
    if new_viol:
        # report the smallest failing input first
        new_viol.sort(key=lambda v: len(json.dumps(v["input"], default=str)))
        v = new_viol[0]
        rel = write_replay(mod.PROP, {"property": mod.PROP, "violation": v, "others": len(new_viol) - 1,
                                      "breaks": breaks, "disagreements": new_dis[:3],
                                      "replay_cmd": "./check %s --replay <this file>" % mod.PROP})
        print("VIOLATION property=%s replay=%s" % (mod.PROP, rel))
        replay_paths.append(rel)
        rc = 1
    elif breaks or new_dis:
        rel = write_replay(mod.PROP, {"property": mod.PROP, "violation": None,
                                      "no_longer_checks": breaks,
                                      "correspondence_disagreements": new_dis[:5],
                                      "note": "no input violating the property text was found by the search; "
                                              "the property is no longer shown to hold"})
        print("VIOLATION property=%s replay=%s no-failing-input-found" % (mod.PROP, rel))
        replay_paths.append(rel)
        rc = 1

    tb = list(BASE_TRUSTED) + list(getattr(mod, "TRUSTED", []))
    for n in obligations:
        tb.append("Print Assumptions %s: %s" % (n, assumptions_map.get(n, "not re-emitted in this run")))
    coverage = {
        "obligations": len(obligations), "discharged": discharged,
        "checker_cmd": checker_cmd, "trusted_base": tb,
        "theorems": obligations,
        "evaluations": ctx.evaluations, "distinct_nontrivial": len(ctx.nontrivial),
        "rule": getattr(mod, "RULE", ""), "samples": ctx.samples or [{"family": "none", "case": None}],
        "histogram": ctx.histogram, "notes": ctx.notes,
        "correspondence_disagreements": len(ctx.disagreements),
        "property_violations": len(ctx.violations),
        "known_findings_seen": sorted(seen_known),
        "breaks": breaks, "replays": replay_paths,
        "exhaustive": bool(getattr(mod, "EXHAUSTIVE", False)),
    }
    write_evidence(mod, ctx, args.tier, coverage, len(new_viol) + (1 if (rc and not new_viol) else 0),
                   list(getattr(mod, "ASSUMPTIONS", [])))
    print("%s %s: obligations %d/%d, evaluations %d (distinct non-trivial %d), disagreements %d, violations %d, %.1fs"
          % (mod.PROP, args.tier, discharged, len(obligations), ctx.evaluations, len(ctx.nontrivial),
             len(ctx.disagreements), len(ctx.violations), time.time() - ctx.t0))
    return rc


# ---------------------------------------------------------------------------------------------
# Correspondence through Coq itself: the harness prints inputs and the implementation's observable
# results as Gallina literals into .work/cases/*.v; `Eval vm_compute in (mismatches f cases)` does
# the comparison inside Coq (Base/CV.v).  No glue code between model and comparison.
def gz(i):
    i = int(i)
    return "(%d)" % i if i < 0 else "%d" % i


def gbytes(b):
    return '(hx "%s")' % bytes(b).hex()


def glist(items):
    return "[" + "; ".join(items) + "]"


def gbool(b):
    return "true" if b else "false"


def gopt(x):
    return "None" if x is None else "(Some %s)" % x


def gnat(i):
    return "%d%%nat" % int(i)


def gq(x):
    from fractions import Fraction
    x = Fraction(x)
    return "(%s # %d)" % (gz(x.numerator), x.denominator)


def CZ(i):
    return "(CZ %s)" % gz(i)


def CBy(b):
    return '(CB (hx "%s"))' % bytes(b).hex()


def CLs(items):
    return "(CL [" + "; ".join(items) + "])"


def CQ(x):
    """a rational result as CL [num; den] in lowest terms"""
    from fractions import Fraction
    x = Fraction(x)
    return CLs([CZ(x.numerator), CZ(x.denominator)])


def _run_coqc(path, timeout):
    rc, out = sh(["coqc", "-Q", os.path.join(COQ, "theories"), "PdfV", "-w", "-all", path], timeout,
                 cwd=os.path.dirname(path))
    return rc, out


def _cases_file(imports, fexpr, chunk, show_idx=None):
    lines = ["From Coq Require Import ZArith QArith List String Bool.",
             "From PdfV Require Import Base.CV %s." % " ".join(imports),
             "Import ListNotations.", "Open Scope Z_scope.", "Open Scope string_scope.",
             "Definition the_f := %s." % fexpr,
             # the list is elaborated against the domain of the_f, so that an untyped None or [] in a shard where no
             # other case fixes the type is still well typed (false alarms with seeds 1 and 3 otherwise)
             "Definition the_cases := ltac:(let T := type of the_f in let T := eval hnf in T in",
             "  lazymatch T with ?A -> _ => exact (["]
    lines.append(";\n".join("  (%s, %s)" % (a, w) for a, w in chunk))
    lines.append("] : list (A * cv)) end).")
    if show_idx is None:
        lines.append("Eval vm_compute in (mismatches the_f the_cases).")
    else:
        for i in show_idx:
            lines.append("Eval vm_compute in (show_at the_f the_cases %d%%nat)." % i)
    return "\n".join(lines) + "\n"


def coq_cases(tag, imports, fexpr, cases, shard=400, timeout=900, jobs=None, show_max=8):
    """cases: list of (input_gallina, expected_cv_gallina).  Returns {index: model_output_string} for the
    cases on which the model (fexpr : input -> cv) differs from the expected value.  Raises on a Coq error
    (a model that no longer evaluates is a broken tie, never a pass)."""
    from concurrent.futures import ThreadPoolExecutor
    d = os.path.join(WORK, "cases")
    os.makedirs(d, exist_ok=True)
    jobs = jobs or int(os.environ.get("VERIF_JOBS", "16"))
    shards = [(k, cases[k:k + shard]) for k in range(0, len(cases), shard)]

    def run(sh_):
        k, chunk = sh_
        path = os.path.join(d, "%s_%d.v" % (tag, k))
        with open(path, "w") as f:
            f.write(_cases_file(imports, fexpr, chunk))
        rc, out = _run_coqc(path, timeout)
        if rc != 0 or "list nat" not in out:
            raise RuntimeError("coqc failed on %s: %s" % (path, out[-1500:]))
        body = out[out.index("="):out.rindex(": list nat")]
        idx = [int(x) for x in re.findall(r"(\d+)%nat", body)] or [int(x) for x in re.findall(r"\b(\d+)\b", body)]
        res = {}
        if idx:
            with open(path, "w") as f:
                f.write(_cases_file(imports, fexpr, chunk, show_idx=idx[:show_max]))
            rc, out2 = _run_coqc(path, timeout)
            shown = re.findall(r'=\s*"((?:[^"]|"")*)"(?:%string)?\s*:\s*string', out2)
            for j, i in enumerate(idx):
                res[k + i] = shown[j] if j < len(shown) else "(model output not rendered)"
        for ext in (".v", ".vo", ".vok", ".vos", ".glob"):
            try:
                os.remove(path[:-2] + ext)
            except OSError:
                pass
        try:
            os.remove(os.path.join(d, ".%s_%d.aux" % (tag, k)))
        except OSError:
            pass
        return res

    out = {}
    with ThreadPoolExecutor(max_workers=jobs) as ex:
        for r in ex.map(run, shards):
            out.update(r)
    return out


def parse_shown(s):
    """parse the text produced by Base/CV.v `show`: ints, x<hex> byte strings, [a,b,...] lists"""
    pos = [0]

    def val():
        c = s[pos[0]]
        if c == "[":
            pos[0] += 1
            out = []
            if s[pos[0]] == "]":
                pos[0] += 1
                return out
            while True:
                out.append(val())
                if s[pos[0]] == ",":
                    pos[0] += 1
                    continue
                if s[pos[0]] == "]":
                    pos[0] += 1
                    return out
                raise ValueError("bad list at %d in %r" % (pos[0], s[:80]))
        if c == "x":
            j = pos[0] + 1
            while j < len(s) and s[j] in "0123456789abcdef":
                j += 1
            b = bytes.fromhex(s[pos[0] + 1:j])
            pos[0] = j
            return b
        j = pos[0]
        if s[j] == "-":
            j += 1
        while j < len(s) and s[j].isdigit():
            j += 1
        v = int(s[pos[0]:j])
        pos[0] = j
        return v
    v = val()
    if pos[0] != len(s):
        raise ValueError("trailing text in %r" % s[:80])
    return v


def coq_eval(tag, imports, fexpr, inputs, shard=200, timeout=900, jobs=None):
    """Evaluate `fexpr : input -> cv` on every Gallina input term; returns the parsed values (Python ints, bytes,
    nested lists) in order.  Comparison (e.g. floats within a tolerance) is then the caller's."""
    from concurrent.futures import ThreadPoolExecutor
    d = os.path.join(WORK, "cases")
    os.makedirs(d, exist_ok=True)
    jobs = jobs or int(os.environ.get("VERIF_JOBS", "16"))
    shards = [(k, inputs[k:k + shard]) for k in range(0, len(inputs), shard)]

    def run(sh_):
        k, chunk = sh_
        path = os.path.join(d, "%s_e%d.v" % (tag, k))
        lines = ["From Coq Require Import ZArith QArith List String Bool.",
                 "From PdfV Require Import Base.CV %s." % " ".join(imports),
                 "Import ListNotations.", "Open Scope Z_scope.", "Open Scope string_scope.",
                 "Definition the_f := %s." % fexpr,
                 "Definition the_inputs := [", ";\n".join("  " + a for a in chunk), "].",
                 "Eval vm_compute in (map (fun a => show (the_f a)) the_inputs)."]
        with open(path, "w") as f:
            f.write("\n".join(lines) + "\n")
        rc, out = _run_coqc(path, timeout)
        if rc != 0 or "list string" not in out:
            raise RuntimeError("coqc failed on %s: %s" % (path, out[-1500:]))
        body = out[out.index("="):out.rindex(": list string")]
        shown = re.findall(r'"((?:[^"]|"")*)"', body)
        if len(shown) != len(chunk):
            raise RuntimeError("coq_eval %s: %d inputs, %d outputs" % (path, len(chunk), len(shown)))
        for ext in (".v", ".vo", ".vok", ".vos", ".glob"):
            try:
                os.remove(path[:-2] + ext)
            except OSError:
                pass
        try:
            os.remove(os.path.join(d, ".%s_e%d.aux" % (tag, k)))
        except OSError:
            pass
        return [parse_shown(x) for x in shown]

    out = []
    with ThreadPoolExecutor(max_workers=jobs) as ex:
        for r in ex.map(run, shards):
            out.extend(r)
    return out
