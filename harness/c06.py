#!/usr/bin/env python3
"""C06 -- simple fonts: code -> Unicode / width follow encoding, glyph names, ToUnicode (DESIGN.md section 4, C06)."""
import io
import os
import sys
from fractions import Fraction

sys.path.insert(0, os.path.dirname(os.path.abspath(__file__)))
import common
from common import CZ, CLs, gz, glist, gopt, gq
from pdfwriter import Name, Ref, Stream, write_pdf

PROP = "C06"
GEN = ["gen_fonts"]
PROPS_FILE = "theories/Props/C06.v"
COQ_TARGETS = ["theories/Props/C06.vo", "theories/Model/FontsRun.vo"]
DRIVER = None
LEVEL = "proof"
RULE = ("glyph names: every list name, uni/u names of every shape (upper/lower case, 1-4 groups, 4-6 digits, surrogates, "
        ">10FFFF), underscore joins, dot suffixes, near misses (wrong length, non-hex, signs, 0x, repeated prefix, empty "
        "components, non-ASCII, non-str); get_encoding over the 4 base names + unknown x random Differences (ints, "
        "names, bools, reals, nested arrays); whole documents with two fonts each (Type1/MMType1/TrueType/Type3/unknown "
        "subtype, standard-14 and other BaseFonts, Encoding name/dict/absent, ToUnicode bfchar+bfrange, FontDescriptor "
        "with MissingWidth and FontFile headers (dup..put / StandardEncoding), Widths/FirstChar incl. null and names, "
        "sheared Type3 FontMatrix), all 256 codes shown, LTChar.get_text()/adv compared with Model/Fonts.v in Coq and "
        "with an oracle written from ISO 32000-1 9.6/9.10 + the AGL specification over committed reference tables "
        "(spec/agl.txt, spec/latin.txt, spec/std14.txt). Non-trivial: Differences or ToUnicode or FontFile present.")
TRUSTED = [
    "generated from source on every run: ENCODING rows, glyphname2unicode, FONT_METRICS widths, the numeric guards of "
    "name2unicode (Gen/FontTables.v; the generator also refuses a name2unicode whose tests/slices changed shape)",
    "modelled by hand: name2unicode, EncodingDB class body and get_encoding, PDFSimpleFont/PDFType1Font/PDFType3Font "
    "constructors' choice of widths, descriptor and code map, to_unichr, char_width (Model/Fonts.v)",
    "ToUnicode parsing (CMapParser) and the Type 1 header tokenizer are exercised through real streams but modelled "
    "only by their result (a code->text map / a list of put entries); their own properties are C07 and C01",
    "reference tables spec/*.txt are a reviewed snapshot (Adobe glyph list, ISO Annex D, AFM widths); WinAnsi/MacRoman "
    "are additionally cross-checked against Python's cp1252 / mac_roman codecs, PDFDocEncoding against utils.PDFDocEncoding",
]
ASSUMPTIONS = ["codes are 0..255 (single-byte fonts); FirstChar and Widths are direct or indirect numbers/arrays"]
MANIFEST_ENTRY = {
    "category": "proof",
    "technique": "Coq proofs over a hand model with generated tables (AGL grammar soundness/completeness of name2unicode "
                 "by induction on hex strings, precedence ToUnicode > encoding > placeholder, Differences overlay by "
                 "induction on the array, width-source case analysis, table facts by vm_compute) + differential runs on "
                 "generated fonts in real documents",
    "text": "Theorems: name2unicode on uni<4k hex> / u<4-6 hex> names yields exactly the code points unless a surrogate or "
            ">10FFFF (then no value) and yields no value for every other name outside the glyph list; components and dot "
            "suffixes compose as the AGL says; to_unichr is the ToUnicode entry when there is one, else the encoding's, "
            "else undefined (placeholder text); the Differences array assigns consecutive codes from each integer and the "
            "last assignment wins, untouched codes keep the base encoding; widths come from Widths/FirstChar when present, "
            "else the standard-14 metric of the code's character, else MissingWidth, times 1/1000 or FontMatrix[0]; every "
            "ENCODING row name has a Unicode value and the glyph list has unique keys and no surrogates (vm_compute).",
    "note": "Trusted: Coq kernel, table generator, hand model tied by differential runs; spec/*.txt reference snapshot.",
    "design_ref": "DESIGN.md section 4, C06",
}

HERE = os.path.dirname(os.path.abspath(__file__))
SPEC = os.path.join(os.path.dirname(HERE), "spec")
STD14 = ["Courier", "Courier-Bold", "Courier-BoldOblique", "Courier-Oblique", "Helvetica", "Helvetica-Bold",
         "Helvetica-BoldOblique", "Helvetica-Oblique", "Symbol", "Times-Bold", "Times-BoldItalic", "Times-Italic",
         "Times-Roman", "ZapfDingbats"]
BASES = ["StandardEncoding", "MacRomanEncoding", "WinAnsiEncoding", "PDFDocEncoding"]


# ------------------------------------------------------------------ reference data and ISO/AGL oracle
def load_spec():
    agl = {}
    for line in open(os.path.join(SPEC, "agl.txt")):
        k, v = line.rstrip("\n").split(";")
        agl[k] = "".join(chr(int(x, 16)) for x in v.split())
    latin = {"std": {}, "mac": {}, "win": {}, "pdf": {}}
    for line in open(os.path.join(SPEC, "latin.txt")):
        t, c, n = line.split()
        latin[t][int(c)] = n
    std14 = {}
    for line in open(os.path.join(SPEC, "std14.txt")):
        f, ch, w = line.split()
        std14.setdefault(f, {})["".join(chr(int(x, 16)) for x in ch.split("_"))] = int(w)
    for line in open(os.path.join(SPEC, "std14_aliases.txt")):      # PDF Reference 1.7, implementation note 62
        a, b = line.split()
        std14[a] = std14[b]
    return agl, latin, std14


UPPERHEX = set("0123456789ABCDEF")


def agl_component(agl, comp):
    """AGL specification, section 2, one component; None = no mapping.  Strict: upper-case digits only."""
    if comp in agl:
        return agl[comp]
    if comp.startswith("uni") and len(comp) > 3 and (len(comp) - 3) % 4 == 0 and set(comp[3:]) <= UPPERHEX:
        vals = [int(comp[i:i + 4], 16) for i in range(3, len(comp), 4)]
        if all(not (0xD800 <= v <= 0xDFFF) for v in vals):
            return "".join(map(chr, vals))
        return None
    if comp.startswith("u") and 4 <= len(comp) - 1 <= 6 and set(comp[1:]) <= UPPERHEX:
        v = int(comp[1:], 16)
        if v <= 0x10FFFF and not (0xD800 <= v <= 0xDFFF):
            return chr(v)
    return None


def agl_strict(agl, name):
    """the AGL value of a glyph name when every component maps; None when some component does not (pdfminer
    documents that it then reports no value at all); 'lenient' when the only obstacle is lower-case digits."""
    name = name.split(".")[0]
    out = ""
    for comp in name.split("_"):
        v = agl_component(agl, comp)
        if v is None:
            up = ("uni" + comp[3:].upper()) if comp.startswith("uni") else ("u" + comp[1:].upper()) if comp.startswith("u") else comp
            if up != comp and agl_component(agl, up) is not None and comp not in agl:
                return "lenient"
            return None
        out += v
    return out


def gstr(s):
    return "[" + "; ".join(str(ord(c)) for c in s) + "]"


def gname(n):
    """a name object: str, or bytes when it is not UTF-8"""
    return "None" if isinstance(n, bytes) else "(Some %s)" % gstr(n)


def ctext(s):
    return CLs([CZ(ord(c)) for c in s])


def copt_text(s):
    return CLs([]) if s is None else CLs([ctext(s)])


# ------------------------------------------------------------------ glyph names
HEXC = "0123456789ABCDEFabcdef"


def rand_hex(r, n, case=None):
    s = "".join(r.choice("0123456789ABCDEF") for _ in range(n))
    case = case if case is not None else r.choice("UUUlm")
    if case == "l":
        return s.lower()
    if case == "m":
        return "".join(c.lower() if r.random() < 0.5 else c for c in s)
    return s


INTERESTING = ["0041", "D7FF", "D800", "DBFF", "DC00", "DFFF", "E000", "FFFF", "0000", "20AC", "FB01"]


def gen_name(r, aglkeys, kind):
    if kind == "list":
        return r.choice(aglkeys)
    if kind == "uni":
        return "uni" + "".join(r.choice(INTERESTING) if r.random() < 0.4 else rand_hex(r, 4) for _ in range(r.randint(1, 4)))
    if kind == "u":
        k = r.random()
        if k < 0.3:
            return "u" + r.choice(INTERESTING + ["10FFFF", "110000", "FFFFFF", "010000", "1F600", "00D800", "0DFFF"])
        return "u" + rand_hex(r, r.choice([4, 4, 5, 6]))
    if kind == "miss":
        k = r.randint(0, 15)
        h = rand_hex(r, 4, "U")
        return ["uni" + rand_hex(r, r.choice([0, 1, 2, 3, 5, 6, 7, 9])), "u" + rand_hex(r, r.choice([0, 1, 2, 3, 7, 8])),
                "uniuni" + h, "u" + h + "u", "uni" + h + "i", "unin" + h, "u0x" + h[:2], "uni" + h + "+" + h[:3],
                "uni" + h[:2] + "G" + h[3:], "u+" + h, "u " + h[:3], "Uni" + h, "U" + h, "uni" + h + " ", "un" + h, h,
                ][k]
    if kind == "junk":
        return "".join(r.choice("abcuniUXZ019_.-+ éЖ") for _ in range(r.randint(0, 8)))
    if kind == "compound":
        parts = [gen_name(r, aglkeys, r.choice(["list", "list", "uni", "u", "miss", "junk"])) for _ in range(r.randint(2, 4))]
        s = "_".join(parts)
        if r.random() < 0.2:
            s = s.replace("_", "__", 1)
        return s
    if kind == "suffix":
        return gen_name(r, aglkeys, r.choice(["list", "uni", "u", "compound", "miss"])) + "." + r.choice(
            ["alt", "sc", "a_b", "", "x.y", "uni0041"])
    raise ValueError(kind)


def observe_n2u(name):
    from pdfminer.encodingdb import name2unicode
    try:
        return name2unicode(name), None
    except KeyError:
        return None, "KeyError"
    except BaseException as e:  # noqa
        return None, type(e).__name__


def names_cases(ctx, agl, n, all_list):
    aglkeys = sorted(agl)
    names = ["", ".", "_", ".notdef", "A", "A.", "A_", "_A", "u", "uni", "space", "f_f_i", "ffi", "uni0041", "u0041",
             "uni00410042_C.alt", "uD800", "u00D800", "u110000", "uniD801DC0C", b"\xff\xfe", b"A\x80"]
    if all_list:
        names += aglkeys
    kinds = ["list", "uni", "uni", "u", "u", "miss", "miss", "junk", "compound", "compound", "suffix"]
    for i in range(n):
        r = ctx.sub("name", i)
        names.append(gen_name(r, aglkeys, kinds[i % len(kinds)]))
    cases, metas = [], []
    for nm in names:
        got, err = observe_n2u(nm)
        fam = "names"
        ctx.case(fam, repr(nm), nontrivial=not isinstance(nm, bytes) and ("_" in nm or nm.startswith("u")),
                 sample={"name": repr(nm), "text": got, "err": err})
        if err not in (None, "KeyError"):
            ctx.violation(fam, {"name": repr(nm)}, "a value or KeyError", err, "name2unicode raised something other than KeyError")
            continue
        if isinstance(nm, str):
            want = agl_strict(agl, nm)
            if want != "lenient" and want != got:
                ctx.violation(fam, {"name": nm}, want, got, "glyph name value differs from the Adobe Glyph List algorithm")
        elif got is not None:
            ctx.violation(fam, {"name": repr(nm)}, None, got, "a non-text name has a Unicode value")
        cases.append((gname(nm), copt_text(got)))
        metas.append(nm)
    bad = common.coq_cases("c06n", ["Model.Fonts", "Model.FontsRun"], "run_n2u", cases, shard=700)
    for i, shown in sorted(bad.items()):
        ctx.disagree("names", {"name": repr(metas[i])}, shown, cases[i][1])


# ------------------------------------------------------------------ Differences / get_encoding
def gen_diff(r, aglkeys):
    """returns a list of python-level items: int | ('name', str|bytes) | ('other', pdf value)"""
    out = []
    for _ in range(r.randint(0, 5)):
        k = r.random()
        if k < 0.75:
            out.append(r.choice([0, 1, 32, 39, 65, 65, 66, 96, 127, 128, 160, 173, 200, 250, 254, 255, 256, 300, -1]))
        elif k < 0.8:
            out.append(("other", r.choice([1.5, b"str", [65], None])))
        elif k < 0.85:
            out.append(r.choice([True, False]))
        for _ in range(r.randint(0, 4)):
            k2 = r.random()
            if k2 < 0.55:
                out.append(("name", r.choice(aglkeys)))
            elif k2 < 0.8:
                out.append(("name", gen_name(r, aglkeys, r.choice(["uni", "u", "compound", "suffix"]))))
            elif k2 < 0.95:
                out.append(("name", gen_name(r, aglkeys, r.choice(["miss", "junk"])) or "x"))
            else:
                out.append(("name", r.choice([b"\xff", ".notdef", "foo"])))
    return out


def diff_codes(diff):
    cs, cid = set(), 0
    for x in diff:
        if isinstance(x, (bool, int)):
            cid = int(x)
        elif x[0] == "name":
            cs.add(cid)
            cid += 1
    return cs


def g_diff(diff):
    items = []
    for x in diff:
        if isinstance(x, (bool, int)):
            items.append("DInt %s" % gz(int(x)))
        elif x[0] == "name":
            items.append("DName %s" % gname(x[1]))
        else:
            items.append("DOther")
    return glist(items)


def iso_encoding(agl, latin, base, diff):
    """ISO 32000-1 9.6.6.1 + AGL: code -> text or None ('lenient' entries are skipped by the caller)"""
    t = latin[{"MacRomanEncoding": "mac", "WinAnsiEncoding": "win", "PDFDocEncoding": "pdf"}.get(base, "std")]
    enc = {c: agl_strict(agl, n) for c, n in t.items()}
    cid = 0
    for x in diff:
        if isinstance(x, (bool, int)):
            cid = int(x)
        elif x[0] == "name":
            enc[cid] = agl_strict(agl, x[1]) if isinstance(x[1], str) else None
            cid += 1
    return enc


def py_diff(diff):
    from pdfminer.psparser import LIT, PSLiteral
    out = []
    for x in diff:
        if isinstance(x, (bool, int)):
            out.append(x)
        elif x[0] == "name":
            out.append(LIT(x[1]) if isinstance(x[1], str) else PSLiteral(x[1]))
        else:
            out.append(x[1])
    return out


def getenc_cases(ctx, agl, latin, n):
    from pdfminer.encodingdb import EncodingDB
    aglkeys = sorted(agl)
    cases, metas = [], []
    for i in range(n):
        r = ctx.sub("getenc", i)
        base = r.choice(BASES + ["Foo", "Identity-H"])
        diff = gen_diff(r, aglkeys) if i % 4 else []
        try:
            got = EncodingDB.get_encoding(base, py_diff(diff))
        except BaseException as e:  # noqa
            ctx.violation("getenc", {"base": base, "diff": repr(diff)}, "a table", type(e).__name__, "get_encoding raised")
            continue
        codes = sorted(set(range(256)) | diff_codes(diff))
        ctx.case("getenc", repr((base, diff)), nontrivial=bool(diff_codes(diff)),
                 sample={"base": base, "diff": repr(diff)[:200], "A": got.get(65)})
        want = iso_encoding(agl, latin, base, diff)
        for c in codes:
            w = want.get(c)
            if w != "lenient" and w != got.get(c):
                ctx.violation("getenc", {"base": base, "diff": repr(diff), "code": c}, w, got.get(c),
                              "encoding entry differs from base encoding + Differences + AGL")
                break
        extra = sorted(set(got) - set(codes))
        if extra:
            ctx.violation("getenc", {"base": base, "diff": repr(diff)}, "no other codes", extra[:5], "unexpected codes in the table")
        cases.append(("(%s, %s, %s)" % (gstr(base), g_diff(diff), glist([gz(c) for c in codes])),
                      CLs([copt_text(got.get(c)) for c in codes])))
        metas.append((base, diff))
    bad = common.coq_cases("c06e", ["Model.Fonts", "Model.FontsRun"], "run_getenc", cases, shard=10)
    for i, shown in sorted(bad.items()):
        ctx.disagree("getenc", {"base": metas[i][0], "diff": repr(metas[i][1])}, shown, cases[i][1])


def tables_oracle(ctx, agl, latin, std14):
    """the shipped tables against the reference snapshot and against independent sources"""
    from pdfminer.encodingdb import EncodingDB
    from pdfminer.glyphlist import glyphname2unicode
    from pdfminer.fontmetrics import FONT_METRICS
    from pdfminer.utils import PDFDocEncoding
    for k in sorted(set(agl) | set(glyphname2unicode)):
        if agl.get(k) != glyphname2unicode.get(k):
            ctx.violation("tables", {"glyph": k}, agl.get(k), glyphname2unicode.get(k), "glyph list entry differs from the Adobe Glyph List")
            break
    ctx.case("tables", "glyphlist", nontrivial=True)
    for nm, t in (("StandardEncoding", "std"), ("MacRomanEncoding", "mac"), ("WinAnsiEncoding", "win"), ("PDFDocEncoding", "pdf")):
        got = EncodingDB.encodings[nm]
        for c in range(256):
            w = agl.get(latin[t].get(c)) if c in latin[t] else None
            if got.get(c) != w:
                ctx.violation("tables", {"encoding": nm, "code": c}, w, got.get(c), "base encoding entry differs from ISO 32000-1 Annex D")
                break
        ctx.case("tables", nm, nontrivial=True)
    # independent sources
    win, mac, pdf = EncodingDB.encodings["WinAnsiEncoding"], EncodingDB.encodings["MacRomanEncoding"], EncodingDB.encodings["PDFDocEncoding"]
    win_exc = {160: " ", 173: "-"}
    mac_exc = {202: " ", 219: "¤"}
    mac_undef = {173, 176, 178, 179, 182, 183, 184, 185, 186, 189, 195, 197, 198, 215, 240}
    for c in range(32, 256):
        try:
            w = bytes([c]).decode("cp1252")
        except UnicodeDecodeError:
            w = None
        w = win_exc.get(c, w)
        if c == 127:
            w = None
        if win.get(c) != w:
            ctx.violation("tables", {"encoding": "WinAnsiEncoding", "code": c}, w, win.get(c), "differs from code page 1252 (+ISO exceptions)")
        w = bytes([c]).decode("mac_roman")
        w = mac_exc.get(c, w)
        if c == 127 or c in mac_undef:
            w = None
        if mac.get(c) != w:
            ctx.violation("tables", {"encoding": "MacRomanEncoding", "code": c}, w, mac.get(c), "differs from Mac OS Roman (+ISO exceptions)")
        if c in pdf and pdf[c] != PDFDocEncoding[c]:
            ctx.violation("tables", {"encoding": "PDFDocEncoding", "code": c}, PDFDocEncoding[c], pdf[c], "differs from utils.PDFDocEncoding")
    for fn in sorted(set(std14) | set(FONT_METRICS)):
        a, b = std14.get(fn, {}), FONT_METRICS.get(fn, ({}, {}))[1]
        for ch in sorted(set(a) | set(b)):
            if a.get(ch) != b.get(ch):
                ctx.violation("tables", {"font": fn, "char": ch}, a.get(ch), b.get(ch), "standard-14 width differs from the AFM value")
                break
        ctx.case("tables", fn, nontrivial=True)
    for fn in FONT_METRICS:
        if fn.startswith("Courier") and set(FONT_METRICS[fn][1].values()) != {600}:
            ctx.violation("tables", {"font": fn}, 600, "other", "Courier is monospaced at 600")
    for a, b in (("Helvetica", "Helvetica-Oblique"), ("Helvetica-Bold", "Helvetica-BoldOblique")):
        if FONT_METRICS[a][1] != FONT_METRICS[b][1]:
            ctx.violation("tables", {"font": b}, "same as " + a, "differs", "oblique widths equal upright widths")


# ------------------------------------------------------------------ whole fonts in documents
def u16(s):
    return s.encode("utf-16-be").hex().upper().encode()


def gen_tounicode(r):
    """returns (stream bytes, expected map code->text)"""
    m = {}
    lines = [b"/CIDInit /ProcSet findresource begin", b"12 dict begin", b"begincmap", b"/CMapName /Adobe-Identity-UCS def",
             b"/CMapType 2 def", b"1 begincodespacerange", b"<00> <FF>", b"endcodespacerange"]
    for _ in range(r.randint(0, 3)):
        if r.random() < 0.5:
            ents = []
            for _ in range(r.randint(1, 5)):
                c = r.choice([0, 32, 65, 66, 97, 128, 173, 200, 255, r.randrange(256)])
                t = r.choice(["X", "é", "ffi", "中", "\U0001f600", "Q", "z", "á"])
                ents.append(b"<%02X> <%s>" % (c, u16(t)))
                m[c] = t
            lines += [b"%d beginbfchar" % len(ents)] + ents + [b"endbfchar"]
        else:
            ents = []
            for _ in range(r.randint(1, 3)):
                lo = r.choice([48, 65, 97, 160, 200, r.randrange(250)])
                n = r.randint(1, 5)
                hi = min(255, lo + n - 1)
                if r.random() < 0.6:
                    start = r.choice([0x61, 0x391, 0x4e00, 0x30])
                    ents.append(b"<%02X> <%02X> <%04X>" % (lo, hi, start))
                    for k in range(hi - lo + 1):
                        m[lo + k] = chr(start + k)
                else:
                    ts = [r.choice(["p", "π", "fl", "•"]) for _ in range(hi - lo + 1)]
                    ents.append(b"<%02X> <%02X> [%s]" % (lo, hi, b" ".join(b"<" + u16(t) + b">" for t in ts)))
                    for k, t in enumerate(ts):
                        m[lo + k] = t
            lines += [b"%d beginbfrange" % len(ents)] + ents + [b"endbfrange"]
    lines += [b"endcmap", b"CMapName currentdict /CMap defineresource pop", b"end", b"end"]
    return b"\n".join(lines) + b"\n", m


def safe_header_name(n):
    return isinstance(n, str) and n != "" and all(0x21 <= ord(c) <= 0x7e and c not in "#/%[]()<>{}" for c in n)


def gen_fontfile(r, aglkeys):
    """returns (header bytes, builtin items [('std',) | ('put', code, name)])"""
    items = []
    lines = [b"%!PS-AdobeFont-1.0: Foo 001.001", b"12 dict begin", b"/FontInfo 9 dict dup begin", b"/FullName (Foo) readonly def",
             b"end readonly def", b"/FontName /Foo def"]
    if r.random() < 0.3:
        lines.append(b"/Encoding StandardEncoding def")
        items.append(("std",))
    else:
        lines += [b"/Encoding 256 array", b"0 1 255 {1 index exch /.notdef put} for"]
        for _ in range(r.randint(0, 8)):
            c = r.choice([32, 65, 66, 67, 97, 128, 200, 255, r.randrange(256)])
            while True:
                n = gen_name(r, aglkeys, r.choice(["list", "list", "list", "uni", "u", "compound", "miss", "suffix"]))
                if safe_header_name(n):
                    break
            lines.append(b"dup %d /%s put" % (c, n.encode()))
            items.append(("put", c, n))
        lines.append(b"readonly def")
    lines += [b"/PaintType 0 def", b"/FontType 1 def", b"/FontMatrix [0.001 0 0 0.001 0 0] readonly def", b"currentdict end",
              b"currentfile eexec"]
    return b"\n".join(lines) + b"\n" + bytes(r.randrange(256) for _ in range(r.randint(0, 30))), items


def gen_font(r, aglkeys, objs, nxt):
    """returns (font dict, gallina font term, python description for the oracle)"""
    def alloc(v, p=0.5):
        if r.random() < p:
            nxt[0] += 1
            objs[nxt[0]] = v
            return Ref(nxt[0])
        return v
    kind = r.choice(["Type1", "Type1", "MMType1", "TrueType", "Type3", "Type3", "Foo", None])
    d = {"Type": Name("Font")}
    if kind is not None:
        d["Subtype"] = Name(kind)
    desc = {"kind": kind}
    is3 = kind == "Type3"
    base = None
    if not is3:
        k = r.random()
        if k < 0.45:
            base = r.choice(STD14)
        elif k < 0.9:
            base = r.choice(["ABCDEF+Foo", "Arial", "Helvetica,Bold", "TimesNewRoman", "helvetica", "CourierNew,BoldItalic", "Arial,Italic"])
        if base is not None:
            d["BaseFont"] = Name(base)
    desc["base"] = base
    # encoding
    enc = None
    k = r.random()
    if k < 0.3:
        pass
    elif k < 0.55:
        nm = r.choice(BASES + ["Foo"])
        d["Encoding"] = alloc(Name(nm), 0.2)
        enc = (nm, [])
    else:
        ed = {"Type": Name("Encoding")}
        nm = "StandardEncoding"
        if r.random() < 0.6:
            nm = r.choice(BASES + ["Foo"])
            ed["BaseEncoding"] = Name(nm)
        diff = []
        if r.random() < 0.9:
            diff = gen_diff(r, aglkeys)
            ed["Differences"] = alloc([x if isinstance(x, (bool, int)) else (Name(x[1].encode() if isinstance(x[1], str) else x[1])
                                                                            if x[0] == "name" else x[1]) for x in diff], 0.2)
        d["Encoding"] = alloc(ed)
        enc = (nm, diff)
    desc["enc"] = enc
    # ToUnicode
    tu = None
    if r.random() < 0.45:
        data, tu = gen_tounicode(r)
        nxt[0] += 1
        objs[nxt[0]] = Stream({}, data)
        d["ToUnicode"] = Ref(nxt[0])
    desc["tounicode"] = tu
    # descriptor
    fd = None
    if r.random() < 0.6:
        fdd = {"Type": Name("FontDescriptor"), "FontName": Name(base or "Foo"), "Flags": 32, "FontBBox": [0, -200, 1000, 800],
               "Ascent": 800, "Descent": -200}
        mw = Fraction(0)
        if r.random() < 0.6:
            mw = Fraction(r.choice([250, 500, 1000, 333])) if r.random() < 0.8 else Fraction(r.randint(1, 9999), 10)
            fdd["MissingWidth"] = mw
        builtin = None
        if r.random() < 0.5:
            hdr, builtin = gen_fontfile(r, aglkeys)
            nxt[0] += 1
            objs[nxt[0]] = Stream({"Length1": len(hdr) - r.choice([0, 0, 0, 5]), "Length2": 0, "Length3": 0}, hdr)
            fdd["FontFile"] = Ref(nxt[0])
        d["FontDescriptor"] = alloc(fdd, 0.8)
        fd = (mw, builtin)
    desc["fd"] = fd
    if is3:
        d["FontBBox"] = [0, 0, 1000, 1000]
        d["CharProcs"] = {}
    # widths
    widths = None
    first = 0
    if r.random() < (0.8 if base not in STD14 and base not in ("Arial", "TimesNewRoman", "CourierNew,BoldItalic", "Arial,Italic") else 0.4):
        first = r.choice([0, 32, 32, 65, 200, 255])
        n = r.choice([0, 1, 3, 30, 96, 224, 256])
        widths = []
        for _ in range(n):
            k = r.random()
            if k < 0.8:
                widths.append(Fraction(r.choice([250, 333, 500, 556, 600, 722, 1000, 0])))
            elif k < 0.9:
                widths.append(Fraction(r.randint(0, 20000), 10))
            elif k < 0.95:
                widths.append(None)
            else:
                widths.append(Name("x"))
        d["Widths"] = alloc([alloc(w, 0.02) if w is not None else None for w in widths], 0.3)
        if first != 0 or r.random() < 0.5:
            d["FirstChar"] = first
            d["LastChar"] = first + n - 1
    desc["widths"], desc["first"] = widths, first
    a = Fraction(1, 1000)
    if is3:
        a = r.choice([Fraction(1, 1000), Fraction(1, 1000), Fraction(1, 100), Fraction(1), Fraction(1, 2048)])
        sh = r.choice([0, 0, Fraction(1, 2000), Fraction(-1, 3000)])
        d["FontMatrix"] = [a, r.choice([0, 0, Fraction(1, 5000)]), sh, a, 0, 0]
    desc["a"] = a
    return d, desc


def g_items(items):
    if items is None:
        return "None"
    return "(Some %s)" % glist(["BStd" if it[0] == "std" else "BPut %s (Some %s)" % (gz(it[1]), gstr(it[2])) for it in items])


def g_font(desc):
    enc = "None" if desc["enc"] is None else "(Some (%s, %s))" % (gstr(desc["enc"][0]), g_diff(desc["enc"][1]))
    tu = "None" if desc["tounicode"] is None else "(Some %s)" % glist(
        ["(%d, %s)" % (c, gstr(t)) for c, t in sorted(desc["tounicode"].items())])
    fd = "None" if desc["fd"] is None else "(Some (%s, %s))" % (gq(desc["fd"][0]), g_items(desc["fd"][1]))
    ws = "None" if desc["widths"] is None else "(Some %s)" % glist(
        ["WNum %s" % gq(w) if isinstance(w, Fraction) else "WBad" for w in desc["widths"]])
    return "(mkFont %s %s %s %s %s %s %s %s)" % (
        "KType3" if desc["kind"] == "Type3" else "KType1", gopt(gstr(desc["base"]) if desc["base"] is not None else None),
        enc, tu, fd, ws, gz(desc["first"]), gq(desc["a"]))


def iso_font(agl, latin, std14, desc, code):
    """(text or None, width in text space units) per ISO 32000-1 9.6, 9.10.2; text 'lenient' = not judged"""
    std = desc["kind"] != "Type3" and desc["base"] in std14 and desc["widths"] is None
    fd = None if std else desc["fd"]
    if desc["enc"] is not None:
        enc = iso_encoding(agl, latin, desc["enc"][0], desc["enc"][1])
    elif desc["kind"] != "Type3" and fd is not None and fd[1] is not None:
        enc = {}
        for it in fd[1]:
            if it[0] == "std":
                enc.update({c: agl_strict(agl, n) for c, n in latin["std"].items()})
            else:
                v = agl_strict(agl, it[2])
                if v is not None:
                    enc[it[1]] = v
    else:
        enc = iso_encoding(agl, latin, "StandardEncoding", [])
    tu = desc["tounicode"] or {}
    text = tu[code] if code in tu else enc.get(code)
    a = desc["a"]
    if std:
        w = Fraction(std14[desc["base"]].get(text, 0)) if isinstance(text, str) and text != "lenient" else (
            Fraction(0) if text is None else None)
    else:
        wl = desc["widths"] if desc["widths"] is not None else [Fraction(0)] * 256
        i = code - desc["first"]
        if 0 <= i < len(wl) and isinstance(wl[i], Fraction):
            w = wl[i]
        else:
            w = fd[0] if fd is not None else Fraction(0)
    return text, (None if w is None else w * a)


def fonts_cases(ctx, agl, latin, std14, n):
    from pdfminer.pdfparser import PDFParser
    from pdfminer.pdfdocument import PDFDocument
    from pdfminer.pdfpage import PDFPage
    from pdfminer.pdfinterp import PDFResourceManager, PDFPageInterpreter
    from pdfminer.converter import PDFPageAggregator
    from pdfminer.layout import LTChar
    aglkeys = sorted(agl)
    inputs, metas = [], []
    content = b"BT /F1 10 Tf <" + bytes(range(256)).hex().encode() + b"> Tj ET\nBT /F2 10 Tf <" + bytes(range(256)).hex().encode() + b"> Tj ET\n"
    codes = list(range(256))
    for i in range(n):
        r = ctx.sub("font", i)
        objs = {1: {"Type": Name("Catalog"), "Pages": Ref(2)}, 2: {"Type": Name("Pages"), "Kids": [Ref(5), Ref(7)], "Count": 2}}
        nxt = [20]
        f1, d1 = gen_font(r, aglkeys, objs, nxt)
        f2, d2 = gen_font(r, aglkeys, objs, nxt)
        objs[3], objs[4] = f1, f2
        for pg, cs in ((5, 6), (7, 8)):
            objs[cs] = Stream({}, content)
            objs[pg] = {"Type": Name("Page"), "Parent": Ref(2), "MediaBox": [0, 0, 612, 792], "Contents": Ref(cs),
                        "Resources": {"Font": {"F1": Ref(3), "F2": Ref(4)}}}
        data = write_pdf(objs, 1)
        family = "font"
        try:
            doc = PDFDocument(PDFParser(io.BytesIO(data)))
            rm = PDFResourceManager()
            dev = PDFPageAggregator(rm, laparams=None)
            interp = PDFPageInterpreter(rm, dev)
            pages = []
            for page in PDFPage.create_pages(doc):
                interp.process_page(page)
                pages.append([(o.get_text(), o.adv) for o in dev.get_result() if isinstance(o, LTChar)])
        except BaseException as e:  # noqa
            ctx.violation(family, {"fonts": repr((d1, d2)), "pdf": data.hex()}, "text and advances", type(e).__name__ + ": " + str(e)[:200],
                          "font construction or rendering raised")
            continue
        if len(pages) != 2 or any(len(p) != 512 for p in pages):
            ctx.violation(family, {"fonts": repr((d1, d2))}, "2 pages x 512 glyphs", [len(p) for p in pages], "wrong number of glyphs")
            continue
        if pages[0] != pages[1]:
            ctx.violation(family, {"fonts": repr((d1, d2))}, "same result on both pages", "differs", "cached font behaves differently")
        for j, desc in enumerate((d1, d2)):
            got = pages[0][256 * j:256 * (j + 1)]
            nt = bool(desc["enc"] and desc["enc"][1]) or bool(desc["tounicode"]) or bool(desc["fd"] and desc["fd"][1])
            ctx.case(family, repr(desc), nontrivial=nt,
                     sample={"font": repr(desc)[:300], "A": [got[65][0], got[65][1]]})
            # ISO oracle
            for c in codes:
                wt, ww = iso_font(agl, latin, std14, desc, c)
                if wt == "lenient":
                    continue
                wtext = wt if wt is not None else "(cid:%d)" % c
                if got[c][0] != wtext:
                    ctx.violation(family, {"font": repr(desc), "code": c, "pdf": data.hex()}, wtext, got[c][0],
                                  "text of the code differs from ToUnicode / encoding+AGL / placeholder")
                    break
                if ww is not None and abs(got[c][1] - float(ww * 10)) > 1e-7 * max(1.0, abs(float(ww * 10))):
                    ctx.violation(family, {"font": repr(desc), "code": c, "pdf": data.hex()}, float(ww * 10), got[c][1],
                                  "advance differs from Widths / standard-14 metric / MissingWidth times the font scale")
                    break
            inputs.append("(%s, %s)" % (g_font(desc), "map Z.of_nat (seq 0 256)"))
            metas.append((desc, got, data))
    res = common.coq_eval("c06f", ["Model.Fonts", "Model.FontsRun"], "run_font", inputs, shard=6)
    for (desc, got, data), val in zip(metas, res):
        texts, widths = val
        for c in codes:
            mt = "".join(chr(x) for x in texts[c])
            mw = Fraction(widths[c][0], widths[c][1]) * 10
            if mt != got[c][0] or abs(float(mw) - got[c][1]) > 1e-7 * max(1.0, abs(float(mw))):
                ctx.disagree("font", {"font": repr(desc), "code": c, "pdf": data.hex()}, [mt, float(mw)], list(got[c]))
                break


def base_cases(ctx):
    from pdfminer.encodingdb import EncodingDB
    cases = []
    for nm, sel in (("StandardEncoding", "EStd"), ("MacRomanEncoding", "EMac"), ("WinAnsiEncoding", "EWin"), ("PDFDocEncoding", "EPdf")):
        t = EncodingDB.encodings[nm]
        cases.append((sel, CLs([copt_text(t.get(c)) for c in range(256)])))
        ctx.case("base", nm, nontrivial=True)
    bad = common.coq_cases("c06b", ["Model.Fonts", "Model.FontsRun"], "run_base", cases, shard=1)
    for i, shown in sorted(bad.items()):
        ctx.disagree("base", {"encoding": cases[i][0]}, shown[:2000], "EncodingDB.encodings")


def correspondence(ctx):
    agl, latin, std14 = load_spec()
    tables_oracle(ctx, agl, latin, std14)
    base_cases(ctx)
    names_cases(ctx, agl, ctx.n(1500, 20000), all_list=ctx.tier != "quick")
    getenc_cases(ctx, agl, latin, ctx.n(160, 2500))
    fonts_cases(ctx, agl, latin, std14, ctx.n(100, 1500))


def oracle(ctx):
    pass


def known_match(finding, item):
    return False


def confirm_known(ctx, finding):
    return False


def replay(ctx, data):
    item = data.get("violation") or (data.get("correspondence_disagreements") or [None])[0]
    print("replay: re-run ./check C06; stored case:", str(item)[:1500])


if __name__ == "__main__":
    sys.exit(common.main(sys.modules[__name__]))
