#!/usr/bin/env python3
"""C01 -- every conformant spelling of a value reads back as that value (DESIGN.md section 4, C01)."""
import ast
import io
import os
import sys
from fractions import Fraction

sys.path.insert(0, os.path.dirname(os.path.abspath(__file__)))
import common
from common import CZ, CBy, CLs, gbytes

PROP = "C01"
GEN = ["gen_lexer"]
PROPS_FILE = "theories/Props/C01.v"
COQ_TARGETS = ["theories/Props/C01.vo", "theories/Model/StackRun.vo"]
DRIVER = None
LEVEL = "proof"
RULE = ("random object trees (depth<=5, <=6 entries, strings/names over all 256 byte values) written by a sampler of the "
        "ISO 32000-1 7.2-7.3 spelling freedoms (white-space runs incl. NUL/comments, minimal delimiters, sign/leading "
        "zeros, all real forms with dyadic values, #xx escapes on any subset, string escapes, 1-3 digit octals, balanced "
        "raw parentheses, backslash-EOL continuations, raw LF, hex case/white space), read by PDFStreamParser.nextobject "
        "and by PDFParser ('n g obj .. endobj') at BUFSIZ in {1,2,3,5,7,16,4096} and at a random offset; compared with "
        "Model (lex + StackParser) evaluated in Coq and, as the oracle, with the generated value itself. Non-trivial: "
        "a container or a string/name needing an escape; distinct = distinct spelling bytes.")
TRUSTED = [
    "modelled by hand: nextobject/do_keyword/flush of PSStackParser, PDFParser, PDFStreamParser (Model/StackParser.v) on "
    "top of Model/Lexer.v; tied by correspondence. Python float()/int(), utf-8 decision for names, safe_int on "
    "non-integer operands are outside the model",
    "the theorems are about the model and say nothing about the numeric value of a real (the token carries the spelling; "
    "float() is Python's, compared by the harness on dyadic values)",
]
ASSUMPTIONS = ["settings.STRICT is False (the library default)", "object numbers are integers; generation numbers are discarded "
               "by pdfminer (PDFObjRef keeps the object number only), so references compare by object number"]
MANIFEST_ENTRY = {
    "category": "proof",
    "technique": "Coq proof by induction on the value (object layer, any nesting), on the spelling of each token (state "
                 "invariants with a pending value) and on the spelled token sequence, over the lexer automaton proved equal to "
                 "the buffered scanners; differential runs on sampled ISO spellings",
    "text": "Theorems about the model: (1) object layer: for every value tree of any depth, nextobject applied to the value's token "
            "sequence yields exactly the value (null-valued dictionary entries absent, last duplicate key wins), in "
            "PDFStreamParser and PDFParser flavour; (2) byte layer per token: every admissible spelling of a literal string "
            "(raw, balanced unescaped parentheses to any depth, named escape, 1-3 digit octal, line continuation LF/CR/CRLF, ignored "
            "backslash), hexadecimal string (either "
            "case, white space anywhere), name (raw and #xx), integer (sign, leading zeros), real, keyword and bracket yields "
            "exactly that token, at every BUFSIZ and offset; every byte string / integer has such a spelling; (3) sequences: "
            "token spellings separated by any white space and comments, or by nothing where a delimiter follows (incl. the "
            "pending '>' after a hexadecimal string), are tokenized into exactly the tokens; (4) END TO END "
            "(C01_value_bytes_read_back): every such byte spelling of a value parses to the value, and every value has one; "
            "(5) by C14 the result is the same for every BUFSIZ and file offset.",
    "note": "Trusted: Coq kernel, class translator, hand model tied by correspondence, harness sampler. Known findings: odd-length "
            "hex strings (pinned by the test suite) and raw CR/CRLF inside literal strings are read differently from ISO; "
            "they are excluded from the theorems' spelling families and reported as KNOWN-FINDING.",
    "design_ref": "DESIGN.md section 4, C01",
}

WS = [b" ", b"\n", b"\r", b"\t", b"\x0c", b"\x00", b"\r\n"]
REGULAR_END = ("int", "real", "name", "kw")
REGULAR_START = ("int", "real", "kw")


class Ref:
    def __init__(self, n, g):
        self.n, self.g = n, g


class Real:
    """a dyadic real with its spelling"""
    def __init__(self, sp):
        self.sp = sp


# ------------------------------------------------------------------ value generator
def gen_value(r, depth, allow_ref=True, feat=()):
    k = r.random()
    if depth <= 0 or k < 0.55:
        c = r.random()
        if c < 0.08:
            return None
        if c < 0.16:
            return r.random() < 0.5
        if c < 0.34:
            return r.choice([0, 1, -1, 7, 42, -300, 65535, 2 ** 31, -2 ** 40, r.randint(-10 ** 6, 10 ** 6)])
        if c < 0.46:
            return Real(spell_real(r))
        if c < 0.64:
            return ("name", gen_bytes(r, name=True))
        if c < 0.9:
            return ("str", gen_bytes(r))
        if allow_ref:
            return Ref(r.randint(0, 5000), r.choice([0, 0, 1, 65535]))
        return 5
    if k < 0.8:
        return [gen_value(r, depth - 1, feat=feat) for _ in range(r.randint(0, 6))]
    d = []
    keys = set()
    for _ in range(r.randint(0, 6)):
        kk = gen_bytes(r, name=True)
        if kk in keys and "dupkeys" not in feat:
            continue
        keys.add(kk)
        v = gen_value(r, depth - 1, feat=feat)
        if v is None and "nullvalues" not in feat:
            v = 0
        d.append((kk, v))
    return {"dict": d}


def gen_bytes(r, name=False):
    k = r.random()
    n = r.choice([0, 1, 1, 2, 3, 5, 8, 13, 40]) if k < 0.9 else r.randint(0, 40)
    if r.random() < 0.5:
        pool = b"AaZz09_-.*'\"" if name else b"AaZz09 _-.*()\\\n\t<>[]{}/%#"
        bs = bytes(r.choice(pool) for _ in range(n))
    else:
        bs = bytes(r.randrange(256) for _ in range(n))
    if name and bs.startswith(b"b'"):
        bs = b"x" + bs
    return bs


def spell_real(r):
    """dyadic value, every syntactic form of ISO 7.3.3"""
    num = r.choice([0, 1, 3, 5, 12, 255, 1024, r.randint(0, 99999)])
    e = r.choice([0, 1, 1, 2, 3, 4])
    x = Fraction(num, 2 ** e)
    ip = x.numerator // x.denominator
    fr = x - ip
    fd = ""
    while fr:
        fr *= 10
        fd += str(fr.numerator // fr.denominator)
        fr -= fr.numerator // fr.denominator
    ips = str(ip)
    if ip == 0 and fd and r.random() < 0.4:
        ips = ""
    if r.random() < 0.3:
        ips = "0" * r.randint(1, 3) + ips
    if r.random() < 0.3:
        fd = fd + "0" * r.randint(1, 3)
    if ips == "" and fd == "":
        ips = "0"
    sign = r.choice(["", "", "-", "+"])
    return (sign + ips + "." + fd).encode()


def real_fraction(sp):
    s = sp.decode()
    neg = s.startswith("-")
    s = s.lstrip("+-")
    ip, fd = s.split(".")
    v = Fraction(int(ip or "0")) + (Fraction(int(fd), 10 ** len(fd)) if fd else 0)
    return -v if neg else v


# ------------------------------------------------------------------ spelling sampler
def sp_ws(r, required):
    out = b""
    n = r.choice([0, 0, 1, 1, 2]) if not required else r.choice([1, 1, 1, 2, 3])
    for _ in range(n):
        if r.random() < 0.12:
            out += b"%" + bytes(r.choice(b"abc %()<>[]{}/#\\\x00\x80") for _ in range(r.randint(0, 6))) + r.choice([b"\n", b"\r", b"\r\n"])
        else:
            out += r.choice(WS)
    if required and not out:
        out = b" "
    return out


def sp_name(r, n):
    out = b"/"
    for b in n:
        regular = 0x21 <= b <= 0x7e and b not in b"#/%[]()<>{}"
        if regular and r.random() < 0.8:
            out += bytes([b])
        elif b >= 0x80 and r.random() < 0.3:
            out += bytes([b])
        else:
            out += b"#" + (("%02x" if r.random() < 0.5 else "%02X") % b).encode()
    return out


ESC = {8: b"b", 9: b"t", 10: b"n", 12: b"f", 13: b"r", 40: b"(", 41: b")", 92: b"\\"}


def sp_string(r, s, feat):
    """literal string; balanced raw parentheses are produced for adjacent '(' ... ')' pairs"""
    # decide which parentheses may be written raw: match them like a bracket sequence
    raw_ok = set()
    stack = []
    for i, b in enumerate(s):
        if b == 40:
            stack.append(i)
        elif b == 41 and stack:
            j = stack.pop()
            if r.random() < 0.6:
                raw_ok.add(i)
                raw_ok.add(j)
    # raw parens must stay balanced as a whole: keep only properly nested chosen pairs (already pairs)
    out = b"("
    i = 0
    while i < len(s):
        b = s[i]
        nxt = s[i + 1] if i + 1 < len(s) else None
        k = r.random()
        if r.random() < 0.06:
            # line continuation: denotes nothing (a lone-CR continuation must not be followed by a raw LF)
            out += b"\\" + r.choice([b"\n", b"\r\n"] + ([b"\r"] if b != 10 else []))
        if b in (40, 41):
            if i in raw_ok:
                out += bytes([b])
            elif k < 0.7:
                out += b"\\" + bytes([b])
            else:
                out += b"\\%03o" % b
        elif b == 92:
            out += b"\\\\" if k < 0.7 else b"\\134"
        elif b == 13:
            if "rawcr" in feat and k < 0.6:
                out += b"\r"
            else:
                out += b"\\r" if k < 0.6 else b"\\015"
        elif b == 10 and k < 0.3:
            if "rawcr" in feat and r.random() < 0.5:
                out += r.choice([b"\r\n", b"\r"])                     # an EOL marker denotes LF
            else:
                out += b"\n"
        elif b in ESC and k < 0.6:
            out += b"\\" + ESC[b]
        elif k < 0.75 and b not in (40, 41, 92, 13):
            if r.random() < 0.08 and b not in (10, 13) and not (48 <= b <= 55) and b not in b"nrtbf":
                out += b"\\"                  # a backslash before a byte that starts no escape is ignored (7.3.4.2)
            out += bytes([b])
        else:
            # octal, 1-3 digits; fewer than three only if the next written byte cannot be a digit
            o = b"%o" % b
            short_ok = nxt is None or not (48 <= nxt <= 57)
            if short_ok and r.random() < 0.5:
                # the next byte must then not be written as a raw digit: it is not a digit at all
                out += b"\\" + o
            else:
                out += b"\\%03o" % b
        i += 1
    return out + b")"


def sp_hex(r, s, feat):
    out = b"<"
    digs = s.hex()
    if "oddhex" in feat and digs.endswith("0"):
        digs = digs[:-1]
    for ch in digs:
        if r.random() < 0.15:
            out += r.choice([b" ", b"\n", b"\r", b"\t", b"\x0c"])
        out += (ch.upper() if r.random() < 0.5 else ch).encode()
    if r.random() < 0.1:
        out += b" "
    return out + b">"


def tokens_of(r, v, feat):
    """list of (kind, bytes) token spellings"""
    if v is None:
        return [("kw", b"null")]
    if v is True or v is False:
        return [("kw", b"true" if v else b"false")]
    if isinstance(v, int):
        s = str(abs(v))
        if r.random() < 0.2:
            s = "0" * r.randint(1, 3) + s
        sign = "-" if v < 0 else r.choice(["", "", "+"])
        return [("int", (sign + s).encode())]
    if isinstance(v, Real):
        return [("real", v.sp)]
    if isinstance(v, Ref):
        return [("int", str(v.n).encode()), ("int", str(v.g).encode()), ("kw", b"R")]
    if isinstance(v, tuple) and v[0] == "name":
        return [("name", sp_name(r, v[1]))]
    if isinstance(v, tuple) and v[0] == "str":
        if r.random() < 0.3:
            return [("hex", sp_hex(r, v[1], feat))]
        return [("lit", sp_string(r, v[1], feat))]
    if isinstance(v, list):
        out = [("open", b"[")]
        for x in v:
            out += tokens_of(r, x, feat)
        return out + [("close", b"]")]
    if isinstance(v, dict):
        out = [("open", b"<<")]
        for k, x in v["dict"]:
            out += [("name", sp_name(r, k))] + tokens_of(r, x, feat)
        return out + [("close", b">>")]
    raise TypeError(v)


def join(r, toks):
    out = b""
    prev = None
    for kind, sp in toks:
        if prev is not None:
            need = prev in REGULAR_END and kind in REGULAR_START
            out += sp_ws(r, need)
        out += sp
        prev = kind
    return out


# ------------------------------------------------------------------ expected / observed values
def norm(v):
    """the value a conformant reader reports: dictionary entries whose value is null are absent, last key wins"""
    if isinstance(v, list):
        return [norm(x) for x in v]
    if isinstance(v, dict):
        d = {}
        for k, x in v["dict"]:
            x = norm(x)
            if x is None:
                continue
            d[k] = x
        return {"dict": list(d.items())}
    return v


def canon_expected(v):
    if v is None:
        return CLs([CZ(0)])
    if v is True or v is False:
        return CLs([CZ(1), CZ(1 if v else 0)])
    if isinstance(v, int):
        return CLs([CZ(2), CZ(v)])
    if isinstance(v, Real):
        f = real_fraction(v.sp)
        return CLs([CZ(3), CZ(f.numerator), CZ(f.denominator)])
    if isinstance(v, Ref):
        return CLs([CZ(8), CZ(v.n)])
    if isinstance(v, tuple) and v[0] == "name":
        return CLs([CZ(4), CBy(v[1])])
    if isinstance(v, tuple) and v[0] == "str":
        return CLs([CZ(5), CBy(v[1])])
    if isinstance(v, tuple) and v[0] == "kw":
        return CLs([CZ(9), CBy(v[1])])
    if isinstance(v, list):
        return CLs([CZ(6), CLs([canon_expected(x) for x in v])])
    if isinstance(v, dict):
        return CLs([CZ(7), CLs([CLs([CBy(k), canon_expected(x)]) for k, x in v["dict"]])])
    raise TypeError(v)


def key_bytes(k):
    if isinstance(k, bytes):
        return k
    if k.startswith("b'") or k.startswith('b"'):
        try:
            b = ast.literal_eval(k)
            if isinstance(b, bytes):
                return b
        except Exception:
            pass
    return k.encode("utf-8")


def canon_impl(o):
    from pdfminer.psparser import PSLiteral, PSKeyword
    from pdfminer.pdftypes import PDFObjRef
    if o is None:
        return CLs([CZ(0)])
    if isinstance(o, bool):
        return CLs([CZ(1), CZ(1 if o else 0)])
    if isinstance(o, int):
        return CLs([CZ(2), CZ(o)])
    if isinstance(o, float):
        f = Fraction(o)
        return CLs([CZ(3), CZ(f.numerator), CZ(f.denominator)])
    if isinstance(o, PSLiteral):
        n = o.name
        return CLs([CZ(4), CBy(n.encode("utf-8") if isinstance(n, str) else n)])
    if isinstance(o, bytes):
        return CLs([CZ(5), CBy(o)])
    if isinstance(o, list):
        return CLs([CZ(6), CLs([canon_impl(x) for x in o])])
    if isinstance(o, dict):
        return CLs([CZ(7), CLs([CLs([CBy(key_bytes(k)), canon_impl(x)]) for k, x in o.items()])])
    if isinstance(o, PDFObjRef):
        return CLs([CZ(8), CZ(o.objid)])
    if isinstance(o, PSKeyword):
        return CLs([CZ(9), CBy(o.name)])
    return CLs([CZ(99)])


def run_impl(flavour, data, bufsiz, prefix=b""):
    """all objects until PSEOF -> canonical outcome text"""
    from pdfminer.psparser import PSEOF, PSSyntaxError, PSBaseParser
    from pdfminer.pdfparser import PDFParser, PDFStreamParser
    old = PSBaseParser.BUFSIZ
    PSBaseParser.BUFSIZ = bufsiz
    try:
        if flavour == "stream":
            p = PDFStreamParser(prefix + data)
        else:
            p = PDFParser(io.BytesIO(prefix + data))
        if prefix:
            p.seek(len(prefix))
        out = []
        try:
            for _ in range(len(data) + 4):
                out.append(p.nextobject()[1])
        except PSEOF:
            pass
        except PSSyntaxError:
            return CLs([CZ(1)])
        except ValueError:
            return CLs([CZ(2)])
        except BaseException as e:  # noqa
            return CLs([CZ(50), CBy(type(e).__name__.encode())])
        return CLs([CZ(0), CLs([canon_impl(o) for o in out])])
    finally:
        PSBaseParser.BUFSIZ = old


SIZES = [1, 2, 3, 5, 7, 16, 4096]
FAMILIES = [("conformant", ()), ("conformant", ()), ("conformant", ()), ("nullvalues-dupkeys", ("nullvalues", "dupkeys")),
            ("oddhex", ("oddhex",)), ("rawcr", ("rawcr",))]


def gen_case(r, idx):
    family, feat = FAMILIES[idx % len(FAMILIES)]
    flavour = "stream" if r.random() < 0.6 else "pdf"
    if flavour == "stream":
        vals = [gen_value(r, r.randint(0, 5), allow_ref=False, feat=feat) for _ in range(r.randint(1, 3))]
        vals = [v if not isinstance(v, Ref) else [v] for v in vals]
        toks = []
        for v in vals:
            toks += tokens_of(r, v, feat)
        data = join(r, toks) + r.choice([b"", b" ", b"\n"])
        expected = [norm(v) for v in vals]
    else:
        v = gen_value(r, r.randint(0, 5), feat=feat)
        n, g = r.randint(1, 9999), r.choice([0, 0, 3])
        toks = [("int", str(n).encode()), ("int", str(g).encode()), ("kw", b"obj")] + tokens_of(r, v, feat) + [("kw", b"endobj")]
        data = join(r, toks) + r.choice([b"", b"\n"])
        expected = [n, g, ("kw", b"obj"), norm(v)]
    return family, flavour, data, expected


def nontrivial(data):
    return any(c in data for c in (b"[", b"<<", b"\\", b"#", b"<"))


def correspondence(ctx):
    cases = {"stream": [], "pdf": []}
    metas = {"stream": [], "pdf": []}
    for i in range(ctx.n(1500, 40000)):
        r = ctx.sub("spell", i)
        family, flavour, data, expected = gen_case(r, i)
        ref = run_impl(flavour, data, 4096)
        want = CLs([CZ(0), CLs([canon_expected(x) for x in expected])])
        ctx.case(family, data, nontrivial=nontrivial(data),
                 sample={"flavour": flavour, "bytes": data.decode("latin-1"), "family": family})
        # oracle 1: the generated value itself
        if ref != want:
            ctx.violation(family, {"flavour": flavour, "data": data.hex(), "bufsiz": 4096}, want, ref,
                          "a conformant spelling does not read back as the value it spells")
        # oracle 2: buffer sizes and offsets
        prefix = bytes(r.choice(b" \n%x") for _ in range(r.randint(1, 9))) + b"\n"
        for b in SIZES[:-1] if ctx.tier == "thorough" else [1, r.choice([2, 3]), r.choice([5, 7, 16])]:
            got = run_impl(flavour, data, b)
            if got != ref:
                ctx.violation(family, {"flavour": flavour, "data": data.hex(), "bufsiz": b}, ref, got,
                              "result depends on the read-buffer size")
                break
        got = run_impl(flavour, data, r.choice(SIZES), prefix=prefix)
        if got != ref:
            ctx.violation(family, {"flavour": flavour, "data": data.hex(), "prefix": prefix.hex()}, ref, got,
                          "result depends on the absolute offset")
        cases[flavour].append((gbytes(data), ref))
        metas[flavour].append((family, data))
    for flavour, fn in (("stream", "run_parse_stream"), ("pdf", "run_parse_pdf")):
        bad = common.coq_cases("c01" + flavour, ["Model.StackRun"], fn, cases[flavour], shard=400)
        for i, shown in sorted(bad.items()):
            family, data = metas[flavour][i]
            ctx.disagree(family, {"flavour": flavour, "data": data.hex()}, shown, cases[flavour][i][1])


def oracle(ctx):
    if ctx.boost > 1:
        for i in range(ctx.n(3000, 30000)):
            r = ctx.sub("spell-boost", i)
            family, flavour, data, expected = gen_case(r, i)
            want = CLs([CZ(0), CLs([canon_expected(x) for x in expected])])
            ctx.case(family + "-boost", data, nontrivial=nontrivial(data))
            for b in SIZES:
                got = run_impl(flavour, data, b)
                if got != want:
                    ctx.violation(family, {"flavour": flavour, "data": data.hex(), "bufsiz": b}, want, got,
                                  "a conformant spelling does not read back as the value it spells")
                    break


def known_match(finding, item):
    return item.get("kind") == "property" and item.get("family") == finding.get("family")


WITNESS = {
    "oddhex": ("stream", b"<901FA>", CLs([CZ(0), CLs([CLs([CZ(5), CBy(bytes.fromhex("901fa0"))])])])),
    "rawcr": ("stream", b"(a\r\nb)", CLs([CZ(0), CLs([CLs([CZ(5), CBy(b"a\nb")])])])),
}


def confirm_known(ctx, finding):
    flavour, data, want = WITNESS[finding["family"]]
    return run_impl(flavour, data, 4096) != want


def replay(ctx, data):
    item = data.get("violation") or (data.get("correspondence_disagreements") or [None])[0]
    if not item:
        print("nothing to replay; no longer checks:", data.get("no_longer_checks"))
        return
    inp = item["input"]
    raw = bytes.fromhex(inp["data"])
    print("bytes:", raw)
    outs = {}
    for b in SIZES:
        outs[b] = run_impl(inp["flavour"], raw, b)
        print("BUFSIZ", b, outs[b])
    if "expected" in item and isinstance(item["expected"], str) and item["expected"] != outs[inp.get("bufsiz", 4096)]:
        ctx.violation("replay", inp, item["expected"], outs[inp.get("bufsiz", 4096)], item.get("what", ""))
    if len(set(outs.values())) > 1:
        ctx.violation("replay", inp, outs[4096], outs, "result depends on the read-buffer size")
    fn = "run_parse_stream" if inp["flavour"] == "stream" else "run_parse_pdf"
    bad = common.coq_cases("c01r", ["Model.StackRun"], fn, [(gbytes(raw), outs[4096])])
    for i, shown in bad.items():
        print("model:", shown)
        ctx.disagree("replay", inp, shown, outs[4096])


if __name__ == "__main__":
    sys.exit(common.main(sys.modules[__name__]))
