"""Gen/Geom.v: matrix helpers, drange and the Plane cell-range clamp of pdfminer/utils.py."""
import os
from py2coq import gen_module, write_if_changed, R, Zt, T

RECORDS = {"PlaneB": {"x0": R, "y0": R, "x1": R, "y1": R, "gridsize": Zt}}

ITEMS = [
    dict(qualname="mult_matrix"),
    dict(qualname="translate_matrix"),
    dict(qualname="apply_matrix_pt"),
    dict(qualname="apply_matrix_rect"),
    dict(qualname="apply_matrix_norm"),
    dict(qualname="drange", param_types={"v0": R, "v1": R, "d": Zt}),
    # Plane._getrange: the clamp arithmetic before the two nested drange loops
    dict(qualname="Plane._getrange", coqname="Plane_getrange_clip",
         param_types={"self": ("Rec", "PlaneB"), "bbox": T(R, R, R, R)},
         stop_at_loop=True, returns=["x0", "y0", "x1", "y1"]),
]


def generate(repo, outdir):
    text = gen_module(os.path.join(repo, "pdfminer", "utils.py"), ITEMS, RECORDS)
    write_if_changed(os.path.join(outdir, "Geom.v"), text)
    return ["Geom.v"]
