"""Parser for the single-character regular expressions pdfminer uses (bytes patterns): a bracket class
`[...]`, `[^...]`, or one of `\\s \\S \\d \\D .`; inside a class: literal bytes, ranges a-b, escapes
`\\s \\d \\[ \\] \\\\ \\( \\) \\n \\r \\t \\f \\v \\0`, three-digit octal `\\134` and `\\xHH`.  Anything else is
rejected (fail-closed).  Result: sorted list of inclusive byte ranges that MATCH."""
from py2coq import Unsupported

SPACE = [9, 10, 11, 12, 13, 32]          # bytes \s: [ \t\n\r\f\v]
DIGITS = list(range(48, 58))
SIMPLE_ESC = {"n": 10, "r": 13, "t": 9, "f": 12, "v": 11, "a": 7, "b": 8}


def _escape(pat, i, in_class):
    """pat[i] is the char after the backslash; returns (set_of_bytes, next_index)"""
    c = pat[i]
    if c == "s":
        return set(SPACE), i + 1
    if c == "S":
        return set(range(256)) - set(SPACE), i + 1
    if c == "d":
        return set(DIGITS), i + 1
    if c == "D":
        return set(range(256)) - set(DIGITS), i + 1
    if c in "01234567":
        if i + 2 < len(pat) + 0 and all(ch in "01234567" for ch in pat[i:i + 3]) and len(pat[i:i + 3]) == 3:
            return {int(pat[i:i + 3], 8) & 255}, i + 3
        if c == "0":
            return {0}, i + 1
        raise Unsupported("regex escape \\%s (back-reference or short octal)" % c)
    if c == "x":
        return {int(pat[i + 1:i + 3], 16)}, i + 3
    if c in SIMPLE_ESC:
        if c == "b" and not in_class:
            raise Unsupported("\\b outside a class is a word boundary")
        return {SIMPLE_ESC[c]}, i + 1
    if not c.isalnum():
        return {ord(c)}, i + 1
    raise Unsupported("regex escape \\%s" % c)


def parse_class(pattern: bytes):
    pat = pattern.decode("latin-1")
    if pat == ".":
        got = set(range(256)) - {10}
    elif pat.startswith("\\") and len(pat) >= 2:
        got, j = _escape(pat, 1, False)
        if j != len(pat):
            raise Unsupported("regex %r is not a single character class" % pattern)
    elif pat.startswith("[") and pat.endswith("]"):
        body = pat[1:-1]
        neg = body.startswith("^")
        if neg:
            body = body[1:]
        got, i, first = set(), 0, True
        while i < len(body):
            c = body[i]
            if c == "]" and not first:
                raise Unsupported("regex %r: more than one class" % pattern)
            if c == "[":
                raise Unsupported("regex %r: nested/posix class" % pattern)
            if c == "\\":
                lo, i = _escape(body, i + 1, True)
            else:
                lo, i = {ord(c)}, i + 1
            first = False
            if i + 1 < len(body) and body[i] == "-" and len(lo) == 1:
                if body[i + 1] == "\\":
                    hi, i = _escape(body, i + 2, True)
                else:
                    hi, i = {ord(body[i + 1])}, i + 2
                if len(hi) != 1:
                    raise Unsupported("regex %r: range to a class" % pattern)
                a, b = min(lo), min(hi)
                if b < a:
                    raise Unsupported("regex %r: bad range" % pattern)
                got |= set(range(a, b + 1))
            else:
                got |= lo
        if neg:
            got = set(range(256)) - got
    else:
        raise Unsupported("regex %r is not a single character class" % pattern)
    # cross-check against the re engine itself (the parser above is not trusted alone)
    import re
    rx = re.compile(pattern)
    eng = {b for b in range(256) if rx.fullmatch(bytes([b]))}
    if eng != got:
        raise Unsupported("regex %r: class parser and re engine disagree on %r" % (pattern, sorted(eng ^ got)))
    return ranges(got)


def ranges(s):
    out = []
    for b in sorted(s):
        if out and out[-1][1] == b - 1:
            out[-1][1] = b
        else:
            out.append([b, b])
    return [tuple(r) for r in out]


def coq_pred(name, rs, comment=""):
    if not rs:
        body = "false"
    else:
        body = " || ".join("(c =? %d)" % a if a == b else "((%d <=? c) && (c <=? %d))" % (a, b) for a, b in rs)
    return "Definition %s (c : Z) : bool := %s.%s\n" % (name, body, ("  (* %s *)" % comment) if comment else "")
