#!/usr/bin/env python3
"""Fail-closed translator from a small pure subset of Python (as used by
pdfminer's arithmetic helpers and tables) to Gallina text.

Every construct that is not explicitly listed below raises Unsupported with the
source location; callers treat that as "the tie between model and source is
broken" (never as success).

Accepted function bodies
  * docstring expressions (skipped)
  * tuple-unpacking or single assignments to local names (each name may be
    re-bound; Gallina `let` shadows the same way Python re-binding does in
    straight-line code)
  * `if c: <block ending in return>` followed by the rest (elif/else alike)
  * `return e`
  * optionally (stop_at_loop=True) the body is cut at the first for/while and
    the tuple `returns` of local names is returned instead.
Accepted expressions
  + - * / // unary-, comparisons (chained), and/or/not, conditional expression,
  tuples, names, int and decimal literals (decimal literals become exact
  rationals), attribute reads on declared record parameters, subscripts by a
  literal index on tuples, calls of min/max/abs/int/float/math.floor and of
  other translated functions.
Types: 'R' number, 'Z' integer, 'B' bool, ('T', [types]) tuple, ('Rec', name).
"""
import ast
import copy
import os
import sys
from fractions import Fraction


class Unsupported(Exception):
    pass


def _loc(node):
    return "line %s col %s" % (getattr(node, "lineno", "?"), getattr(node, "col_offset", "?"))


R, Zt, B = "R", "Z", "B"


def T(*ts):
    return ("T", list(ts))


ANNOT = {
    "float": R, "int": Zt, "bool": B,
    "Matrix": T(R, R, R, R, R, R), "Point": T(R, R), "Rect": T(R, R, R, R),
}


def coq_type(t, records):
    if t == R:
        return "R"
    if t == Zt:
        return "Z"
    if t == B:
        return "bool"
    if isinstance(t, tuple) and t[0] == "T":
        return "(" + " * ".join(coq_type(x, records) for x in t[1]) + ")"
    if isinstance(t, tuple) and t[0] == "Rec":
        return t[1]
    raise Unsupported("type %r" % (t,))


def find_def(tree, qualname):
    parts = qualname.split(".")
    body = tree.body
    node = None
    for p in parts:
        node = None
        for n in body:
            if isinstance(n, (ast.FunctionDef, ast.ClassDef)) and n.name == p:
                node = n
        if node is None:
            raise Unsupported("definition %s not found" % qualname)
        body = node.body
    return node


class _Subst(ast.NodeTransformer):
    def __init__(self, mapping):
        self.mapping = mapping

    def visit_Name(self, node):
        if isinstance(node.ctx, ast.Load) and node.id in self.mapping:
            return copy.deepcopy(self.mapping[node.id])
        return node


def inline_private_helpers(tree, qualname):
    """The function `qualname` with every statement `self._helper(args)` replaced by the body of the method _helper of
    the same class (parameters substituted by the argument expressions).  A maintainer extracting the shared arithmetic
    of two operators into a private helper does not change what is computed; this keeps such a rewrite translatable.
    Only statement-level calls of single-underscore methods with positional arguments, no return value, one level."""
    fn = find_def(tree, qualname)
    parts = qualname.split(".")
    if len(parts) != 2:
        return fn
    cls = find_def(tree, parts[0])
    methods = {n.name: n for n in cls.body if isinstance(n, ast.FunctionDef)}

    def expand(stmts):
        out = []
        for st in stmts:
            if isinstance(st, ast.Expr) and isinstance(st.value, ast.Call) and isinstance(st.value.func, ast.Attribute) \
                    and isinstance(st.value.func.value, ast.Name) and st.value.func.value.id == "self" \
                    and st.value.func.attr.startswith("_") and not st.value.func.attr.startswith("__") \
                    and st.value.func.attr in methods and not st.value.keywords:
                h = methods[st.value.func.attr]
                params = [a.arg for a in h.args.args][1:]
                if len(params) == len(st.value.args) and not h.args.vararg and not h.args.kwarg and not h.args.kwonlyargs \
                        and not any(isinstance(x, ast.Return) and x.value is not None for x in ast.walk(h)):
                    mapping = dict(zip(params, st.value.args))
                    assigned = {t.id for x in ast.walk(h) if isinstance(x, ast.Assign) for t in x.targets if isinstance(t, ast.Name)}
                    if not (assigned & set(params)):
                        body = [b for b in h.body if not (isinstance(b, ast.Expr) and isinstance(b.value, ast.Constant))]
                        out.extend(ast.fix_missing_locations(_Subst(mapping).visit(copy.deepcopy(b))) for b in body)
                        continue
            for fld in ("body", "orelse", "finalbody"):
                if hasattr(st, fld) and isinstance(getattr(st, fld), list) and getattr(st, fld) \
                        and isinstance(getattr(st, fld)[0], ast.stmt):
                    st = copy.copy(st)
                    setattr(st, fld, expand(getattr(st, fld)))
            out.append(st)
        return out
    fn2 = copy.copy(fn)
    fn2.body = expand(fn.body)
    return fn2


class FuncTranslator:
    def __init__(self, module_tree, known, records):
        self.tree = module_tree
        self.known = known  # name -> (coqname, [param types], ret type)
        self.records = records  # recname -> {field: type}

    # ---- expressions -------------------------------------------------
    def coerce(self, txt, t, want, node):
        if t == want:
            return txt
        if t == Zt and want == R:
            return "(nofZ o %s)" % txt
        raise Unsupported("type mismatch %r vs %r at %s" % (t, want, _loc(node)))

    def num_join(self, a, ta, b, tb, node):
        if ta == tb and ta in (R, Zt):
            return a, b, ta
        if {ta, tb} == {R, Zt}:
            return self.coerce(a, ta, R, node), self.coerce(b, tb, R, node), R
        raise Unsupported("non-numeric operands %r %r at %s" % (ta, tb, _loc(node)))

    def expr(self, e, env):
        if isinstance(e, ast.Constant):
            v = e.value
            if isinstance(v, bool):
                return ("true" if v else "false"), B
            if isinstance(v, int):
                return "(%d)%%Z" % v, Zt
            if isinstance(v, float):
                src = ast.get_source_segment(self.src, e)
                fr = Fraction(src)
                return "(ndiv o (nofZ o (%d)%%Z) (nofZ o (%d)%%Z))" % (fr.numerator, fr.denominator), R
            raise Unsupported("constant %r at %s" % (v, _loc(e)))
        if isinstance(e, ast.Name):
            if e.id not in env:
                raise Unsupported("free name %s at %s" % (e.id, _loc(e)))
            return env[e.id]
        if isinstance(e, ast.Tuple):
            parts = [self.expr(x, env) for x in e.elts]
            return "(" + ", ".join(p[0] for p in parts) + ")", T(*[p[1] for p in parts])
        if isinstance(e, ast.UnaryOp):
            a, ta = self.expr(e.operand, env)
            if isinstance(e.op, ast.USub):
                if ta == Zt:
                    return "(Z.opp %s)" % a, Zt
                if ta == R:
                    return "(nopp o %s)" % a, R
            if isinstance(e.op, ast.Not) and ta == B:
                return "(negb %s)" % a, B
            raise Unsupported("unary op at %s" % _loc(e))
        if isinstance(e, ast.BinOp):
            a, ta = self.expr(e.left, env)
            b, tb = self.expr(e.right, env)
            a, b, t = self.num_join(a, ta, b, tb, e)
            op = type(e.op)
            if op in (ast.Add, ast.Sub, ast.Mult):
                nm = {ast.Add: "add", ast.Sub: "sub", ast.Mult: "mul"}[op]
                if t == Zt:
                    return "(Z.%s %s %s)" % (nm, a, b), Zt
                return "(n%s o %s %s)" % (nm, a, b), R
            if op is ast.FloorDiv and t == Zt:
                return "(Z.div %s %s)" % (a, b), Zt
            if op is ast.Mod and t == Zt:
                return "(Z.modulo %s %s)" % (a, b), Zt
            if op is ast.Div:
                a = self.coerce(a, t, R, e)
                b = self.coerce(b, t, R, e)
                return "(ndiv o %s %s)" % (a, b), R
            raise Unsupported("binary op %s at %s" % (op.__name__, _loc(e)))
        if isinstance(e, ast.Compare):
            items = [e.left] + list(e.comparators)
            outs = []
            for op, l, r in zip(e.ops, items, items[1:]):
                a, ta = self.expr(l, env)
                b, tb = self.expr(r, env)
                a, b, t = self.num_join(a, ta, b, tb, e)
                k = type(op)
                if t == Zt:
                    m = {ast.Lt: "(Z.ltb %s %s)", ast.LtE: "(Z.leb %s %s)", ast.Gt: "(Z.ltb %s %s)",
                         ast.GtE: "(Z.leb %s %s)", ast.Eq: "(Z.eqb %s %s)", ast.NotEq: "(negb (Z.eqb %s %s))"}
                else:
                    m = {ast.Lt: "(nlt o %s %s)", ast.LtE: "(nle o %s %s)", ast.Gt: "(nlt o %s %s)",
                         ast.GtE: "(nle o %s %s)", ast.Eq: "(neqb o %s %s)", ast.NotEq: "(negb (neqb o %s %s))"}
                if k not in m:
                    raise Unsupported("comparison at %s" % _loc(e))
                if k in (ast.Gt, ast.GtE):
                    a, b = b, a
                outs.append(m[k] % (a, b))
            txt = outs[0]
            for x in outs[1:]:
                txt = "(andb %s %s)" % (txt, x)
            return txt, B
        if isinstance(e, ast.BoolOp):
            parts = [self.expr(x, env) for x in e.values]
            for p, x in zip(parts, e.values):
                if p[1] != B:
                    raise Unsupported("non-bool in and/or at %s" % _loc(x))
            f = "andb" if isinstance(e.op, ast.And) else "orb"
            txt = parts[-1][0]
            for p in reversed(parts[:-1]):
                txt = "(%s %s %s)" % (f, p[0], txt)
            return txt, B
        if isinstance(e, ast.IfExp):
            c, tc = self.expr(e.test, env)
            a, ta = self.expr(e.body, env)
            b, tb = self.expr(e.orelse, env)
            if tc != B:
                raise Unsupported("non-bool condition at %s" % _loc(e))
            if ta != tb:
                a, b, ta = self.num_join(a, ta, b, tb, e)
            return "(if %s then %s else %s)" % (c, a, b), ta
        if isinstance(e, ast.Attribute):
            av = getattr(self, "attr_vars", {})
            key = ast.unparse(e)
            if key in av:
                return av[key]
            if isinstance(e.value, ast.Name) and e.value.id in env:
                base, tbase = env[e.value.id]
                if isinstance(tbase, tuple) and tbase[0] == "Rec":
                    flds = self.records[tbase[1]]
                    if e.attr in flds:
                        return "(%s_%s %s)" % (tbase[1], e.attr, base), flds[e.attr]
            raise Unsupported("attribute %s at %s" % (ast.dump(e)[:60], _loc(e)))
        if isinstance(e, ast.Subscript):
            a, ta = self.expr(e.value, env)
            if isinstance(ta, tuple) and ta[0] == "T" and isinstance(e.slice, ast.Constant) \
                    and isinstance(e.slice.value, int) and 0 <= e.slice.value < len(ta[1]):
                n = len(ta[1])
                i = e.slice.value
                pat = ", ".join("x%d__" % k if k == i else "_" for k in range(n))
                return "(let '(%s) := %s in x%d__)" % (pat, a, i), ta[1][i]
            raise Unsupported("subscript at %s" % _loc(e))
        if isinstance(e, ast.Call):
            fname = None
            if isinstance(e.func, ast.Name):
                fname = e.func.id
            elif isinstance(e.func, ast.Attribute) and isinstance(e.func.value, ast.Name) \
                    and e.func.value.id == "math":
                fname = "math." + e.func.attr
            elif isinstance(e.func, ast.Attribute) and isinstance(e.func.value, ast.Name) \
                    and e.func.value.id == "utils":
                fname = e.func.attr                       # utils.mult_matrix(...) etc.
            if fname in getattr(self, "holes", {}):
                return self.holes[fname]
            if e.keywords:
                raise Unsupported("keyword args at %s" % _loc(e))
            if fname in ("min", "max") and len(e.args) == 1 and not e.keywords:
                # min/max over a tuple literal, or over a local name bound to one (xs = (a, b, c); min(xs))
                a0 = e.args[0]
                parts = None
                if isinstance(a0, ast.Tuple):
                    parts = [self.expr(x, env) for x in a0.elts]
                elif isinstance(a0, ast.Name) and ("%tuple%" + a0.id) in env:
                    parts = list(env["%tuple%" + a0.id])
                if parts is not None and len(parts) >= 2:
                    args = parts
                else:
                    args = [self.expr(x, env) for x in e.args]
            else:
                args = [self.expr(x, env) for x in e.args]
            if fname in ("min", "max") and len(args) >= 2:
                acc, tacc = args[0]
                for b, tb in args[1:]:
                    acc, b, tacc = self.num_join(acc, tacc, b, tb, e)
                    if tacc == Zt:
                        acc = "(Z.%s %s %s)" % (fname, acc, b)
                    else:
                        acc = "(n%s o %s %s)" % (fname, acc, b)
                return acc, tacc
            if fname == "abs" and len(args) == 1:
                a, ta = args[0]
                return ("(Z.abs %s)" % a, Zt) if ta == Zt else ("(nabs o %s)" % a, R)
            if fname == "int" and len(args) == 1:
                a, ta = args[0]
                return (a, Zt) if ta == Zt else ("(ntrunc o %s)" % a, Zt)
            if fname == "math.floor" and len(args) == 1:
                a, ta = args[0]
                return (a, Zt) if ta == Zt else ("(nfloor o %s)" % a, Zt)
            if fname == "float" and len(args) == 1:
                a, ta = args[0]
                return self.coerce(a, ta, R, e), R
            if fname == "range" and len(args) == 2:
                # a range object is modelled by its two bounds
                (a, ta), (b, tb) = args
                if ta == Zt and tb == Zt:
                    return "(%s, %s)" % (a, b), T(Zt, Zt)
            if fname in self.known:
                cname, ptypes, rtype = self.known[fname]
                if len(ptypes) != len(args):
                    raise Unsupported("arity of %s at %s" % (fname, _loc(e)))
                outs = [self.coerce_t(a, ta, pt, e) for (a, ta), pt in zip(args, ptypes)]
                return "(%s o %s)" % (cname, " ".join(outs)), rtype
            raise Unsupported("call of %s at %s" % (fname, _loc(e)))
        raise Unsupported("expression %s at %s" % (type(e).__name__, _loc(e)))

    def coerce_t(self, txt, t, want, node):
        if t == want:
            return txt
        if t == Zt and want == R:
            return "(nofZ o %s)" % txt
        if isinstance(t, tuple) and isinstance(want, tuple) and t[0] == "T" and want[0] == "T" \
                and len(t[1]) == len(want[1]):
            if all(a == b for a, b in zip(t[1], want[1])):
                return txt
            names = ["c%d__" % i for i in range(len(t[1]))]
            parts = [self.coerce_t(n, a, b, node) for n, a, b in zip(names, t[1], want[1])]
            return "(let '(%s) := %s in (%s))" % (", ".join(names), txt, ", ".join(parts))
        raise Unsupported("argument type %r vs %r at %s" % (t, want, _loc(node)))

    # ---- statements --------------------------------------------------
    def bind(self, target, txt, t, env):
        """returns (pattern text, new env)"""
        env = dict(env)
        if isinstance(target, ast.Name):
            env[target.id] = (target.id, t)
            return target.id, env
        if isinstance(target, ast.Tuple):
            if not (isinstance(t, tuple) and t[0] == "T" and len(t[1]) == len(target.elts)):
                raise Unsupported("unpacking shape at %s" % _loc(target))
            pats = []
            for el, et in zip(target.elts, t[1]):
                p, env = self.bind(el, None, et, env)
                pats.append(p)
            return "'(" + ", ".join(pats) + ")", env
        raise Unsupported("assignment target at %s" % _loc(target))

    def block(self, stmts, env, rtype_box, tail=None):
        """Translate a statement list that must end in return (or fall to tail)."""
        if not stmts:
            if tail is None:
                raise Unsupported("block falls off the end")
            return tail(env)
        s, rest = stmts[0], stmts[1:]
        if isinstance(s, ast.Expr) and isinstance(s.value, ast.Constant) and isinstance(s.value.value, str):
            return self.block(rest, env, rtype_box, tail)
        if isinstance(s, ast.Expr) and isinstance(s.value, ast.Call) and isinstance(s.value.func, ast.Attribute) \
                and isinstance(s.value.func.value, ast.Name) and s.value.func.value.id in ("log", "logger", "logging"):
            return self.block(rest, env, rtype_box, tail)          # logging has no effect on the value
        is_effect = (isinstance(s, (ast.For, ast.While))
                     or (self.stop_at_effect and isinstance(s, ast.Expr) and isinstance(s.value, ast.Call))
                     or (self.stop_at_effect and isinstance(s, ast.Assign) and len(s.targets) == 1
                         and isinstance(s.targets[0], ast.Attribute)))
        if is_effect and (self.stop_at_loop or self.stop_at_effect):
            parts = [env[n] for n in self.returns]
            if len(parts) == 1:
                rtype_box.append(parts[0][1])
                return parts[0][0]
            rtype_box.append(T(*[p[1] for p in parts]))
            return "(" + ", ".join(p[0] for p in parts) + ")"
        if isinstance(s, ast.If):
            ia = self.if_assign(s, env)
            if ia is not None:
                name, txt, t = ia
                env2 = dict(env)
                env2[name] = (name, t)
                return "let %s := %s in\n  %s" % (name, txt, self.block(rest, env2, rtype_box, tail))
        if isinstance(s, ast.Assign) and len(s.targets) == 1:
            v, tv = self.expr(s.value, env)
            pat, env2 = self.bind(s.targets[0], v, tv, env)
            if isinstance(s.targets[0], ast.Name):
                env2.pop("%tuple%" + s.targets[0].id, None)
                if isinstance(s.value, ast.Tuple):
                    env2["%tuple%" + s.targets[0].id] = [self.expr(x, env) for x in s.value.elts]
            return "let %s := %s in\n  %s" % (pat, v, self.block(rest, env2, rtype_box, tail))
        if isinstance(s, ast.AnnAssign) and s.value is not None and isinstance(s.target, ast.Name):
            v, tv = self.expr(s.value, env)
            pat, env2 = self.bind(s.target, v, tv, env)
            return "let %s := %s in\n  %s" % (pat, v, self.block(rest, env2, rtype_box, tail))
        if isinstance(s, ast.Return):
            if s.value is None:
                raise Unsupported("bare return at %s" % _loc(s))
            v, tv = self.expr(s.value, env)
            rtype_box.append(tv)
            return v
        if isinstance(s, ast.If):
            c, tc = self.expr(s.test, env)
            if tc != B:
                raise Unsupported("non-bool if at %s" % _loc(s))
            cont = (lambda env_: self.block(rest, env, rtype_box, tail)) if (rest or tail) else None
            # assignments inside branches do not flow out: require branches to return
            a = self.block(s.body, env, rtype_box, None if self.ends_in_return(s.body) else self.no_flow(s))
            if s.orelse:
                b = self.block(s.orelse, env, rtype_box,
                               None if self.ends_in_return(s.orelse) else self.no_flow(s))
                if rest:
                    raise Unsupported("code after if/else at %s" % _loc(s))
            else:
                b = cont(env) if cont else None
                if b is None:
                    raise Unsupported("if without continuation at %s" % _loc(s))
            return "(if %s then %s else %s)" % (c, a, b)
        raise Unsupported("statement %s at %s" % (type(s).__name__, _loc(s)))

    def if_assign(self, s, env):
        """`if c: x = e1 / elif ..: x = e2 / else: x = e3` (every branch a single assignment to the same name)
        -> (name, conditional expression text, type); None when the statement has another shape."""
        def single(body):
            if len(body) == 1 and isinstance(body[0], ast.Assign) and len(body[0].targets) == 1 \
                    and isinstance(body[0].targets[0], ast.Name):
                return body[0].targets[0].id, body[0].value
            return None
        a = single(s.body)
        if a is None or not s.orelse:
            return None
        name, val = a
        want = self.local_types.get(name)
        c, tc = self.expr(s.test, env)
        if tc != B:
            return None
        v, tv = self.expr(val, env)
        if want is not None:
            v, tv = self.coerce_t(v, tv, want, s), want
        if len(s.orelse) == 1 and isinstance(s.orelse[0], ast.If):
            rest = self.if_assign(s.orelse[0], env)
            if rest is None or rest[0] != name:
                return None
            w, tw = rest[1], rest[2]
        else:
            b = single(s.orelse)
            if b is None or b[0] != name:
                return None
            w, tw = self.expr(b[1], env)
            if want is not None:
                w, tw = self.coerce_t(w, tw, want, s), want
        if tv != tw:
            raise Unsupported("branch types differ for %s at %s: %r %r" % (name, _loc(s), tv, tw))
        return name, "(if %s then %s else %s)" % (c, v, w), tv

    def no_flow(self, s):
        def f(env):
            raise Unsupported("branch must end in return at %s" % _loc(s))
        return f

    def ends_in_return(self, stmts):
        if not stmts:
            return False
        last = stmts[-1]
        if isinstance(last, ast.Return):
            return True
        if isinstance(last, ast.If) and last.orelse:
            return self.ends_in_return(last.body) and self.ends_in_return(last.orelse)
        return False

    def function(self, src, qualname, coqname=None, param_types=None, stop_at_loop=False, returns=None,
                 stop_at_effect=False, local_types=None):
        self.src = src
        self.stop_at_loop = stop_at_loop
        self.stop_at_effect = stop_at_effect
        self.local_types = local_types or {}
        self.returns = returns or []
        fn = find_def(self.tree, qualname)
        if not isinstance(fn, ast.FunctionDef):
            raise Unsupported("%s is not a function" % qualname)
        a = fn.args
        if a.vararg or a.kwarg or a.kwonlyargs or a.posonlyargs:
            raise Unsupported("parameter kinds of %s" % qualname)
        param_types = param_types or {}
        env = {}
        params = []
        for arg in a.args:
            if arg.arg in param_types:
                t = param_types[arg.arg]
            elif arg.annotation is not None and isinstance(arg.annotation, ast.Name) \
                    and arg.annotation.id in ANNOT:
                t = ANNOT[arg.annotation.id]
            else:
                raise Unsupported("no type for parameter %s of %s" % (arg.arg, qualname))
            env[arg.arg] = (arg.arg, t)
            params.append((arg.arg, t))
        rbox = []
        body = self.block(fn.body, env, rbox)
        r0 = rbox[0]
        for r in rbox[1:]:
            if r != r0:
                raise Unsupported("return types differ in %s: %r %r" % (qualname, r0, r))
        coqname = coqname or qualname.replace(".", "_")
        ptxt = " ".join("(%s : %s)" % (n, coq_type(t, self.records)) for n, t in params)
        text = "Definition %s (o : NumOps R) %s : %s :=\n  %s.\n" % (
            coqname, ptxt, coq_type(r0, self.records), body)
        self.known[fn.name if "." not in qualname else qualname.split(".")[-1]] = (
            coqname, [t for _, t in params], r0)
        return text


def gen_assign_expr(ft, src, qualname, target, coqname, params, holes):
    """Definition coqname (params) := <RHS of the assignment to `target` (e.g. 'self.rotate') inside qualname>, where a
    call of a function named in `holes` stands for the parameter {fname: (param, type)}."""
    fn = find_def(ft.tree, qualname)
    hit = None
    for node in ast.walk(fn):
        if isinstance(node, ast.Assign) and len(node.targets) == 1 and ast.unparse(node.targets[0]) == target:
            if hit is not None:
                raise Unsupported("%s assigned twice in %s" % (target, qualname))
            hit = node
    if hit is None:
        raise Unsupported("no assignment to %s in %s" % (target, qualname))
    ft.src = src
    ft.holes = {k: v for k, v in holes.items()}
    ft.stop_at_loop = ft.stop_at_effect = False
    ft.local_types = {}
    env = {n: (n, t) for n, t in params}
    txt, t = ft.expr(hit.value, env)
    ft.holes = {}
    ptxt = " ".join("(%s : %s)" % (n, coq_type(tt, ft.records)) for n, tt in params)
    return "Definition %s (o : NumOps R) %s : %s :=\n  %s.\n" % (coqname, ptxt, coq_type(t, ft.records), txt)


def gen_from_assigns(ft, src, qualname, coqname, params, targets, result, attr_vars=None, holes=None):
    """Definition coqname (params) := let t1 := <rhs of the assignment to t1 in qualname> in ... <result>.
    `targets`: names (or unparsed target texts such as '(a, b, c, d, e, f)') assigned exactly once anywhere in the
    function, translated in the given order; `result` is a Python expression over params and targets;
    attr_vars maps attribute chains (e.g. 'self.textstate.leading') to (param name, type)."""
    fn = inline_private_helpers(ft.tree, qualname)
    ft.src = src
    ft.attr_vars = dict(attr_vars or {})
    ft.holes = dict(holes or {})
    ft.stop_at_loop = ft.stop_at_effect = False
    ft.local_types = {}
    env = {n: (n, t) for n, t in params}
    lets = []
    for tgt in targets:
        want = None
        if "@" in tgt:                      # name@k: the k-th assignment in source order, of exactly `of` many
            tgt, spec = tgt.split("@")
            want, total = [int(x) for x in spec.split("/")]
        hits = [n for n in ast.walk(fn) if isinstance(n, ast.Assign) and len(n.targets) == 1
                and ast.unparse(n.targets[0]) == tgt]
        hits.sort(key=lambda n: (n.lineno, n.col_offset))
        if want is not None:
            if len(hits) != total:
                raise Unsupported("%s: %d assignments to %s, expected %d" % (qualname, len(hits), tgt, total))
            hits = [hits[want]]
        if len(hits) != 1:
            raise Unsupported("%s: %d assignments to %s" % (qualname, len(hits), tgt))
        v, tv = ft.expr(hits[0].value, env)
        t0 = hits[0].targets[0]
        if isinstance(t0, ast.Attribute):
            if tgt not in ft.attr_vars:
                raise Unsupported("%s: attribute target %s is not declared" % (qualname, tgt))
            pat = ft.attr_vars[tgt][0]
            env = dict(env)
            env[pat] = (pat, tv)
            ft.attr_vars[tgt] = (pat, tv)
        else:
            pat, env = ft.bind(t0, v, tv, env)
        lets.append("let %s := %s in" % (pat, v))
    rexpr = ast.parse(result, mode="eval").body
    rv, rt = ft.expr(rexpr, env)
    ft.attr_vars, ft.holes = {}, {}
    ptxt = " ".join("(%s : %s)" % (n, coq_type(tt, ft.records)) for n, tt in params)
    return "Definition %s (o : NumOps R) %s : %s :=\n  %s\n  %s.\n" % (
        coqname, ptxt, coq_type(rt, ft.records), "\n  ".join(lets), rv)


def gen_module(py_path, items, records=None, header="", known=None):
    """items: list of dicts(qualname=..., coqname=?, param_types=?, stop_at_loop=?, returns=?)"""
    src = open(py_path, encoding="utf-8").read()
    tree = ast.parse(src)
    records = records or {}
    ft = FuncTranslator(tree, dict(known or {}), records)
    out = ["(* GENERATED by translator/py2coq.py from %s -- do not edit *)" % os.path.basename(py_path),
           "From Coq Require Import ZArith Bool.", "From PdfV Require Import Base.Num.", header,
           "Section Gen.", "Context {R : Type}.", ""]
    for rn, flds in records.items():
        out.append("Record %s := mk%s { %s }." % (
            rn, rn, "; ".join("%s_%s : %s" % (rn, f, coq_type(t, records)) for f, t in flds.items())))
    for it in items:
        if "assign_target" in it:
            out.append(gen_assign_expr(ft, src, it["qualname"], it["assign_target"], it["coqname"],
                                       it["params"], it.get("holes", {})))
        else:
            out.append(ft.function(src, **it))
    out.append("End Gen.")
    return "\n".join(out) + "\n"


def write_if_changed(path, text):
    old = None
    if os.path.exists(path):
        old = open(path, encoding="utf-8").read()
    if old != text:
        os.makedirs(os.path.dirname(path), exist_ok=True)
        with open(path, "w", encoding="utf-8") as f:
            f.write(text)
        return True
    return False


if __name__ == "__main__":
    print(__doc__)
