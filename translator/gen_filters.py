"""Gen/FilterGen.v: utils.paeth_predictor and the filter-name tables of pdftypes.py."""
import ast
import os
from py2coq import gen_module, write_if_changed, Unsupported, Zt

ITEMS = [dict(qualname="paeth_predictor", param_types={"left": Zt, "above": Zt, "upper_left": Zt})]
TABLES = ["LITERALS_FLATE_DECODE", "LITERALS_LZW_DECODE", "LITERALS_ASCII85_DECODE", "LITERALS_ASCIIHEX_DECODE",
          "LITERALS_RUNLENGTH_DECODE", "LITERALS_CCITTFAX_DECODE", "LITERALS_DCT_DECODE", "LITERALS_JBIG2_DECODE",
          "LITERALS_JPX_DECODE"]


def lit_names(node, name):
    """(LIT("A"), LIT("B")) -> [b"A", b"B"]"""
    if not isinstance(node, ast.Tuple):
        raise Unsupported("%s is not a tuple of LIT(..)" % name)
    out = []
    for e in node.elts:
        if not (isinstance(e, ast.Call) and isinstance(e.func, ast.Name) and e.func.id == "LIT" and len(e.args) == 1
                and isinstance(e.args[0], ast.Constant) and isinstance(e.args[0].value, str)):
            raise Unsupported("%s entry is not LIT(<str>)" % name)
        out.append(e.args[0].value.encode("utf-8"))
    return out


def generate(repo, outdir):
    text = gen_module(os.path.join(repo, "pdfminer", "utils.py"), ITEMS, {})
    tree = ast.parse(open(os.path.join(repo, "pdfminer", "pdftypes.py"), encoding="utf-8").read())
    consts = {}
    for node in tree.body:
        if isinstance(node, ast.Assign) and len(node.targets) == 1 and isinstance(node.targets[0], ast.Name):
            consts[node.targets[0].id] = node.value
    extra = ["", "From Coq Require Import List.", "Import ListNotations.", "Open Scope Z_scope."]
    for t in TABLES:
        if t not in consts:
            raise Unsupported("pdftypes.%s not found" % t)
        names = lit_names(consts[t], t)
        extra.append("Definition %s : list (list Z) := [%s]." % (
            t, "; ".join("[" + "; ".join(str(c) for c in n) + "]" for n in names)))
    write_if_changed(os.path.join(outdir, "FilterGen.v"), text + "\n".join(extra) + "\n")
    return ["FilterGen.v"]
