"""Gen/Purity.v: facts about process-wide mutable state read off the source (fail closed):
  * the complete list of module- and class-level mutable containers (a new one is refused until it is reviewed),
  * EncodingDB.get_encoding copies the shared table before the first mutation,
  * CMap.use_cmap copies nested dictionaries instead of sharing them,
  * PDFResourceManager.get_font stores into the cache only under `objid and self.caching`,
  * PDFDocument.getobj stores into the cache only under `self.caching`."""
import ast
import glob
import os
from py2coq import write_if_changed, Unsupported

ALLOWED = {
    "_saslprep.py": {"__all__"},
    "ccitt.py": {"CCITTG4Parser.MODE", "CCITTG4Parser.WHITE", "CCITTG4Parser.BLACK", "CCITTG4Parser.UNCOMPRESSED"},
    "cmapdb.py": {"CMapDB._cmap_cache", "CMapDB._umap_cache"},
    "converter.py": {"HTMLConverter.RECT_COLORS", "HTMLConverter.TEXT_COLORS"},
    "encodingdb.py": {"EncodingDB.std2unicode", "EncodingDB.mac2unicode", "EncodingDB.win2unicode", "EncodingDB.pdf2unicode", "EncodingDB.encodings"},
    "fontmetrics.py": {"FONT_METRICS"},
    "glyphlist.py": {"glyphname2unicode"},
    "jbig2.py": {"SEG_STRUCT", "JBIG2StreamWriter.EMPTY_RETENTION_FLAGS"},
    "latin_enc.py": {"ENCODING"},
    "pdfcolor.py": {"PREDEFINED_COLORSPACE"},
    "pdfdocument.py": {"PDFDocument.security_handler_registry"},
    "pdffont.py": {"IDENTITY_ENCODER"},
    "pdfpage.py": {"PDFPage.INHERITABLE_ATTRS"},
    "psparser.py": {"ESC_STRING", "PSLiteralTable", "PSKeywordTable"},
    "utils.py": {"ROMAN_ONES", "ROMAN_FIVES"},
}
MUT_CALLS = ("dict", "list", "set", "collections.OrderedDict", "OrderedDict", "defaultdict", "collections.defaultdict", "PSSymbolTable")


def mutable(v):
    return isinstance(v, (ast.Dict, ast.List, ast.Set, ast.ListComp, ast.DictComp, ast.SetComp)) or (
        isinstance(v, ast.Call) and ast.unparse(v.func) in MUT_CALLS)


def find_def(tree, cls, name):
    for n in tree.body:
        if isinstance(n, ast.ClassDef) and n.name == cls:
            for m in n.body:
                if isinstance(m, ast.FunctionDef) and m.name == name:
                    return m
    raise Unsupported("%s.%s not found" % (cls, name))


def generate(repo, outdir):
    found = {}
    for path in sorted(glob.glob(os.path.join(repo, "pdfminer", "*.py"))):
        tree = ast.parse(open(path, encoding="utf-8").read())
        names = set()
        for n in tree.body:
            if isinstance(n, (ast.Assign, ast.AnnAssign)):
                v = n.value
                t = n.targets[0] if isinstance(n, ast.Assign) else n.target
                if v is not None and mutable(v):
                    names.add(ast.unparse(t))
            if isinstance(n, ast.ClassDef):
                for m in n.body:
                    if isinstance(m, (ast.Assign, ast.AnnAssign)):
                        v = m.value
                        t = m.targets[0] if isinstance(m, ast.Assign) else m.target
                        if v is not None and mutable(v):
                            names.add(n.name + "." + ast.unparse(t))
            if isinstance(n, ast.Global) or any(isinstance(x, ast.Global) for x in ast.walk(n)):
                raise Unsupported("%s uses a `global` statement" % os.path.basename(path))
        if names:
            found[os.path.basename(path)] = names
    for f, names in found.items():
        extra = names - ALLOWED.get(f, set())
        if extra:
            raise Unsupported("new process-wide mutable state in %s: %s (review it and extend translator/gen_purity.py)" % (f, sorted(extra)))
    # ---- copy-on-write in get_encoding: every mutation of a local table is preceded (in source order) by an assignment
    # of that local from a fresh copy, never from the shared class-level table
    tree = ast.parse(open(os.path.join(repo, "pdfminer", "encodingdb.py"), encoding="utf-8").read())
    ge = find_def(tree, "EncodingDB", "get_encoding")

    def is_private(expr):
        if isinstance(expr, ast.Call) and isinstance(expr.func, ast.Attribute) and expr.func.attr == "copy" and not expr.args:
            return True
        if isinstance(expr, ast.Call) and isinstance(expr.func, ast.Name) and expr.func.id == "dict":
            return True
        if isinstance(expr, (ast.Dict, ast.DictComp)):
            return True
        return False
    assigns = {}      # name -> [(line, private?)]
    for n in ast.walk(ge):
        if isinstance(n, ast.Assign):
            for t in n.targets:
                if isinstance(t, ast.Name):
                    assigns.setdefault(t.id, []).append((n.lineno, is_private(n.value)))
        elif isinstance(n, ast.AnnAssign) and isinstance(n.target, ast.Name) and n.value is not None:
            assigns.setdefault(n.target.id, []).append((n.lineno, is_private(n.value)))
    MUTATORS = {"pop", "update", "setdefault", "clear", "popitem", "__setitem__", "__delitem__"}
    mutations = []    # (name, line)
    for n in ast.walk(ge):
        if isinstance(n, ast.Subscript) and isinstance(n.ctx, (ast.Store, ast.Del)) and isinstance(n.value, ast.Name):
            mutations.append((n.value.id, n.lineno))
        if isinstance(n, ast.Call) and isinstance(n.func, ast.Attribute) and n.func.attr in MUTATORS \
                and isinstance(n.func.value, ast.Name):
            mutations.append((n.func.value.id, n.lineno))
        if isinstance(n, ast.Call) and isinstance(n.func, ast.Attribute) and n.func.attr in MUTATORS \
                and not isinstance(n.func.value, ast.Name):
            raise Unsupported("get_encoding mutates %s (not a local name)" % ast.unparse(n.func.value))
    if not mutations:
        raise Unsupported("get_encoding: no overlay of the Differences found")
    copy_first = True
    for name, line in mutations:
        before = [(l, p) for l, p in assigns.get(name, []) if l < line]
        if not before or not max(before)[1]:
            copy_first = False
    # ---- use_cmap copies
    tree = ast.parse(open(os.path.join(repo, "pdfminer", "cmapdb.py"), encoding="utf-8").read())
    uc = find_def(tree, "CMap", "use_cmap")
    src = ast.unparse(uc)
    use_cmap_copies = "d: Dict[int, object] = {}" in src and "dst[k] = d" in src and "copy(d, v)" in src and "dst[k] = v" in src
    # ---- caches written only under their guards
    tree = ast.parse(open(os.path.join(repo, "pdfminer", "pdfinterp.py"), encoding="utf-8").read())
    gf = find_def(tree, "PDFResourceManager", "get_font")
    font_guard = False
    for n in ast.walk(gf):
        if isinstance(n, ast.If) and ast.unparse(n.test) == "objid and self.caching":
            font_guard = any("self._cached_fonts[objid] = font" in ast.unparse(b) for b in n.body)
    stores = [n for n in ast.walk(gf) if isinstance(n, ast.Subscript) and isinstance(n.ctx, ast.Store) and "_cached_fonts" in ast.unparse(n.value)]
    if len(stores) != 1:
        font_guard = False
    # the descendant CIDFont dictionary (a cached, shared object) is copied before the parent's entries are written into it
    subspec_copied = "subspec = dict_value(dfonts[0]).copy()" in ast.unparse(gf)
    subspec_writes = [n for n in ast.walk(gf) if isinstance(n, ast.Subscript) and isinstance(n.ctx, ast.Store) and ast.unparse(n.value) == "subspec"]
    if not subspec_writes:
        subspec_copied = True
    # the font cache is keyed by the object number of the font dictionary (a key that determines the value), never by
    # a page-local resource name: every get_font call passes None or `objid`, and `objid` is only ever None or spec.objid
    key_ok = True
    for fn in sorted(os.listdir(os.path.join(repo, "pdfminer"))):
        if not fn.endswith(".py"):
            continue
        t2 = ast.parse(open(os.path.join(repo, "pdfminer", fn), encoding="utf-8").read())
        for n in ast.walk(t2):
            if isinstance(n, ast.Call) and isinstance(n.func, ast.Attribute) and n.func.attr == "get_font":
                if not n.args or ast.unparse(n.args[0]) not in ("None", "objid"):
                    key_ok = False
    ir = find_def(tree, "PDFPageInterpreter", "init_resources")
    for n in ast.walk(ir):
        if isinstance(n, ast.Assign) and any(ast.unparse(t) == "objid" for t in n.targets):
            if ast.unparse(n.value) not in ("None", "spec.objid"):
                key_ok = False
        if isinstance(n, (ast.AugAssign, ast.AnnAssign)) and ast.unparse(n.target) == "objid":
            key_ok = False
    guarded = [n for n in ast.walk(ir) if isinstance(n, ast.If) and ast.unparse(n.test) == "isinstance(spec, PDFObjRef)"
               and any(ast.unparse(b) == "objid = spec.objid" for b in n.body)]
    if not guarded:
        key_ok = False
    tree = ast.parse(open(os.path.join(repo, "pdfminer", "pdfdocument.py"), encoding="utf-8").read())
    go = find_def(tree, "PDFDocument", "getobj")
    obj_guard = False
    for n in ast.walk(go):
        if isinstance(n, ast.If) and ast.unparse(n.test) == "self.caching":
            obj_guard = any("self._cached_objs[objid] = (obj, genno)" in ast.unparse(b) for b in n.body)
    out = ["(* GENERATED by translator/gen_purity.py from pdfminer/*.py -- do not edit *)",
           "Definition encoding_copy_before_mutation : bool := %s." % ("true" if copy_first else "false"),
           "Definition use_cmap_copies : bool := %s." % ("true" if use_cmap_copies else "false"),
           "Definition font_cache_guarded : bool := %s." % ("true" if font_guard else "false"),
           "Definition object_cache_guarded : bool := %s." % ("true" if obj_guard else "false"),
           "Definition type0_subspec_copied : bool := %s." % ("true" if subspec_copied else "false"),
           "Definition font_cache_key_is_objid : bool := %s." % ("true" if key_ok else "false"),
           "Definition shared_state_count : nat := %d." % sum(len(v) for v in found.values())]
    write_if_changed(os.path.join(outdir, "Purity.v"), "\n".join(out) + "\n")
    return ["Purity.v"]
