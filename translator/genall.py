#!/usr/bin/env python3
"""Regenerate every coq/theories/Gen/*.v from the repository working tree.
usage: genall.py [REPO] [only-module ...]   exit 0 = ok, 3 = fail-closed (untranslatable source)."""
import glob, importlib, os, sys, traceback
HERE = os.path.dirname(os.path.abspath(__file__))
sys.path.insert(0, HERE)
from py2coq import Unsupported


def main(argv):
    repo = argv[1] if len(argv) > 1 else os.environ.get("VERIF_REPO", "/repo")
    only = set(argv[2:])
    outdir = os.path.join(os.path.dirname(HERE), "coq", "theories", "Gen")
    os.makedirs(outdir, exist_ok=True)
    rc = 0
    for path in sorted(glob.glob(os.path.join(HERE, "gen_*.py"))):
        name = os.path.basename(path)[:-3]
        if only and name not in only and name[4:] not in only:
            continue
        try:
            mod = importlib.import_module(name)
            files = mod.generate(repo, outdir)
            print("GEN ok %s -> %s" % (name, " ".join(files)))
        except Unsupported as e:
            print("GEN FAIL-CLOSED %s: %s" % (name, e))
            rc = 3
        except Exception as e:  # any other failure is also fail-closed
            print("GEN FAIL-CLOSED %s: %s: %s" % (name, type(e).__name__, e))
            traceback.print_exc()
            rc = 3
    return rc


if __name__ == "__main__":
    sys.exit(main(sys.argv))
